#!/bin/bash
# Behaviour-preserving edits (renamed receiver/parameters/locals, added logging, reordered independent
# statements): every named check must stay green with each of them applied. usage: harmless.sh
# (applies each diff to /repo, runs the check, reverts)
fail=0
while read n p; do
  [ -z "$n" ] && continue
  out=$(/verif/mutest.sh /verif/harmless/$n.diff $p)
  if echo "$out" | grep -q "^VIOLATION\|load failed\|does not apply"; then echo "ALARM on harmless edit $n ($p)"; echo "$out" | head -3; fail=1; else echo "quiet $n ($p)"; fi
done <<LIST
H1-rename-receiver-param C15
H2-rename-local C11
H3-add-logging-and-reorder C04
H4-reorder-independent C11
H5-extract-helper C01
LIST
exit $fail
