#!/usr/bin/env python3
# Regenerates /verif/MANIFEST.json from the table below (run after claiming or withdrawing a property).
import json, subprocess
props=[json.loads(l) for l in open('/verif/properties.jsonl')]
claimed = json.load(open('/verif/claims.json'))
hooks = subprocess.run(['git','-C','/repo','log','--format=%h %s'],capture_output=True,text=True).stdout.splitlines()
hook_commits=[l.split()[0] for l in hooks if l.split(' ',1)[1].startswith('verif hook')]
checks=[]
for p in props:
    c=claimed.get(p['id'])
    if not c or c.get('na'): continue
    checks.append({
      "property_id":p['id'],
      "quick_cmd":f"./check {p['id']} quick",
      "thorough_cmd":f"./check {p['id']} thorough",
      "evidence_file":f"/verif/evidence/{p['id']}.json",
      "replay_cmd_template":"./check replay {path}",
      "engine":"vcgo",
      "level_claimed":{"category":c.get("category","proof"),"text":c["text"],"design_ref":c.get("design_ref","DESIGN.md section 10.2 (as built) and section 7 "+p["id"]+" (plan)")},
      "level_note":c["note"],
      "technique":c.get("technique","contract-based deductive verification: weakest-precondition VCs generated from go/ssa of the real functions against //@ contracts, discharged by z3/cvc5"),
    })
na=[]
for p in props:
    c=claimed.get(p['id'])
    if c and not c.get('na'): continue
    na.append({"property_id":p['id'],"reason":(c or {}).get("reason","contracts for this property are not built yet (framework under construction); plan in DESIGN.md section 7")})
m={"version":1,
 "setup_cmd":"cd /verif/vcgo && GOTOOLCHAIN=local GOFLAGS=-mod=mod GOPROXY=off GOSUMDB=off go1.26.8 build -o /verif/bin/vcgo . && /verif/bin/vcgo warm",
 "hooks":{"guard":"verif","enable":"go/packages loads /repo with BuildFlags -tags=verif, which adds the comment-only contract files <pkg>/verif_contracts.go (analysis only; no binary is built with the tag)","baseline_off_cmd":"cd /repo && go test -mod=mod -vet=off -count=1 -timeout 25m ./...","source_commits":hook_commits,"add_only":True},
 "engines":[{"name":"vcgo","path":"/verif/vcgo","serves_properties":[c["property_id"] for c in checks],"kind_free_text":"verification-condition generator over go/ssa for //@ contracts kept in /repo/<pkg>/verif_contracts.go (tag verif); obligations discharged by a portfolio of z3 5.1.0 (two configurations), cvc5 1.0.3, and z3 4.8.12 in the thorough tier"}],
 "checks":checks,
 "notes":"Every check regenerates its obligations from /repo's working tree on each run. See DESIGN.md.",
 "not_applicable":na}
json.dump(m,open('/verif/MANIFEST.json','w'),indent=1)
print(len(checks),'claimed',len(na),'not applicable')
