#!/bin/bash
# usage: confirm_seeded.sh <id> <a|b> ...  : confirms a seeded change in a scratch worktree of /repo
# (1) builds, (2) whole existing suite passes with it, (3) demo fails with it, (4) demo passes without it.
export GOFLAGS=-mod=mod GOPROXY=off
IN=${IN:-/verif/seeded/_incoming}
for spec in "$@"; do
  id=${spec%/*}; v=${spec#*/}
  d=$IN/$id/$v
  [ -f $d/patch.diff ] || { echo "$spec: no patch"; continue; }
  wt=/tmp/wt/confirm-$id-$v
  git -C /repo worktree add -q --detach $wt HEAD || continue
  demo_path=$(sed -n 1p $d/demo_path.txt | tr -d '\r' | xargs)
  run_pat=$(sed -n 2p $d/demo_path.txt | tr -d '\r' | xargs)
  pkgdir=$(dirname $demo_path)
  res="{\"id\":\"$id\",\"variant\":\"$v\""
  # (4) demo passes on the unchanged tree
  cp $d/demo_test.go $wt/$demo_path
  (cd $wt && go test -vet=off -count=1 -timeout 300s -run "$run_pat" ./$pkgdir/ > /tmp/confirm-$id-$v.base.log 2>&1); r4=$?
  rm -f $wt/$demo_path
  # apply
  (cd $wt && git apply $d/patch.diff) || { echo "$spec: patch does not apply"; git -C /repo worktree remove --force $wt; continue; }
  (cd $wt && go build ./... > /tmp/confirm-$id-$v.build.log 2>&1); r1=$?
  (cd $wt && go test -vet=off -count=1 -timeout 20m ./... > /tmp/confirm-$id-$v.suite.log 2>&1); r2=$?
  cp $d/demo_test.go $wt/$demo_path
  (cd $wt && go test -vet=off -count=1 -timeout 300s -run "$run_pat" ./$pkgdir/ > /tmp/confirm-$id-$v.demo.log 2>&1); r3=$?
  echo "$spec build=$r1 suite=$r2 demo_with_change=$r3 demo_without=$r4"
  echo "{\"id\":\"$id\",\"variant\":\"$v\",\"build_exit\":$r1,\"suite_exit\":$r2,\"demo_with_change_exit\":$r3,\"demo_without_change_exit\":$r4}" > $d/confirm.json
  git -C /repo worktree remove --force $wt
done
