#!/bin/bash
# usage: mkharmless.sh <name> <file> <python-replace-script>   -> /verif/harmless/<name>.diff (behaviour-preserving edit)
name=$1; file=$2
cd /repo && cp "$file" /tmp/mkh.orig && python3 - "$file" <<PY
import sys,re
p=sys.argv[1]
s=open(p).read()
$3
open(p,'w').write(s)
PY
if [ $? -ne 0 ]; then cp /tmp/mkh.orig "$file"; exit 1; fi
(cd /repo && GOFLAGS=-mod=mod GOPROXY=off go build ./... ) || { echo "does not build"; cp /tmp/mkh.orig "$file"; exit 1; }
git -C /repo diff -- "$file" > /verif/harmless/$name.diff; cp /tmp/mkh.orig "$file"; echo "wrote harmless/$name ($(wc -l < /verif/harmless/$name.diff) lines)"
