#!/bin/bash
# usage: mutest.sh <patch> <prop>...   applies the patch to /repo, runs the checks, reverts
patch=$1; shift
git -C /repo apply "$patch" || { echo "patch does not apply"; exit 3; }
for p in "$@"; do
  /verif/bin/vcgo check -prop $p 2>&1 | grep -E "VIOLATION|FAILED|UNVERIFIABLE|VACUOUS|obligations,|KNOWN|ERROR|load failed|declared and not used" | cut -c1-300
done
git -C /repo apply -R "$patch"
git -C /repo status --short | grep -v verif_contracts
