#!/bin/bash
# usage: mkmut.sh <name> <file> <old> <new>   -> /verif/mutants/<name>.diff   (never touches other uncommitted work)
name=$1; file=$2; old=$3; new=$4
cd /repo && cp "$file" /tmp/mkmut.orig && python3 - "$file" "$old" "$new" <<'PY'
import sys
p,old,new=sys.argv[1:4]
s=open(p).read()
assert s.count(old)==1, (s.count(old), old)
open(p,'w').write(s.replace(old,new))
PY
if [ $? -ne 0 ]; then cp /tmp/mkmut.orig "$file"; exit 1; fi
git -C /repo diff -- "$file" > /verif/mutants/$name.diff; cp /tmp/mkmut.orig "$file"; echo "wrote $name ($(wc -l < /verif/mutants/$name.diff) lines)"
