#!/bin/bash
# Must-fail corpus: applies every mutant (own corpus in mutants/, confirmed seeded changes in seeded/) to a
# scratch copy of the repository and expects the named property's check to report a violation.
# usage: selftest.sh [repo-copy]   (default: a fresh copy of /repo's HEAD under /tmp, removed afterwards)
set -u
V=$(cd "$(dirname "$0")" && pwd)
BIN=${VCGO:-/verif/bin/vcgo}
R=${1:-}
own=0
if [ -z "$R" ]; then R=$(mktemp -d /tmp/selftest.XXXXXX); own=1; git -C /repo archive HEAD | tar -x -C "$R"; fi
# uncommitted contract files of /repo are part of the tree under test
( cd /repo && git ls-files -m -o --exclude-standard | grep 'verif_' | while read f; do mkdir -p "$R/$(dirname $f)"; cp "$f" "$R/$f"; done )
cp "$BIN" "$R/.vcgo"; BIN="$R/.vcgo"
# the ledger and the known findings as they are now (later edits of /verif do not disturb this run)
mkdir -p "$R/.verif"; cp "$V/obligations.lock.json" "$V/known_findings.json" "$V/MANIFEST.json" "$R/.verif/"
VS="$R/.verif"
pass=0; fail=0
# prime the query cache on the unchanged copy: afterwards only the queries a change affects are solved
if [ -z "${NOPRIME:-}" ]; then
  for p in $(python3 -c "import json; print(' '.join(c['property_id'] for c in json.load(open('$V/MANIFEST.json'))['checks']))"); do
    "$BIN" check -repo "$R" -verif "$VS" -prop $p -scratch "$R/.scratch" -cache "$R/.cache" 2>&1 | grep -E "obligations,|^VIOLATION" | sed 's/^/prime: /'
  done
fi
ONLY=${2:-}
run() { # name patch props...
  name=$1; patch=$2; shift 2
  if [ -n "$ONLY" ] && ! echo "$name" | grep -Eq "$ONLY"; then return; fi
  if ! ( cd "$R" && patch -p1 -s --dry-run < "$patch" >/dev/null 2>&1 ); then echo "NOAPPLY $name"; fail=$((fail+1)); return; fi
  ( cd "$R" && patch -p1 -s < "$patch" )
  caught=""
  for p in "$@"; do
    out=$("$BIN" check -repo "$R" -verif "$VS" -prop $p -scratch "$R/.scratch" -cache "$R/.cache" 2>&1)
    if echo "$out" | grep -q "^VIOLATION property=$p"; then caught="$caught $p:$(echo "$out" | grep -m1 '^FAILED' | sed 's/FAILED obligation //' | cut -c1-110)"; fi
  done
  ( cd "$R" && patch -p1 -R -s < "$patch" )
  if [ -n "$caught" ]; then echo "CAUGHT $name ->$caught"; pass=$((pass+1)); else echo "MISSED $name (ran: $*)"; fail=$((fail+1)); fi
}
for f in "$V"/mutants/*.diff; do n=$(basename $f .diff); p=${n%%-*}; [ "$p" = C03 ] && p=C02; run "$n" "$f" $p; done
for d in "$V"/seeded/C*/*/; do [ -f "$d/patch.diff" ] || continue; id=$(basename $(dirname $d)); v=$(basename $d)
  props=$(python3 -c "import json,sys; m=json.load(open('$d/meta.json')); print(' '.join(m.get('caught_by_props',[m['property']])))" 2>/dev/null || echo $id)
  exp=$(python3 -c "import json; print(json.load(open('$d/meta.json')).get('expected','caught'))" 2>/dev/null || echo caught)
  if [ "$exp" = missed ]; then echo "SKIP seeded/$id/$v (documented as missed)"; continue; fi
  run "seeded/$id/$v" "$d/patch.diff" $props; done
echo "selftest: $pass caught, $fail missed"
[ $own = 1 ] && rm -rf "$R"
[ $fail = 0 ]
