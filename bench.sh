#!/bin/bash
# usage: bench.sh <smt2 file> [timeout]  -> solving time of z3-new under 6 seeds and 2 configurations, cvc5 once
f=$1; t=${2:-60}
for s in 0 1 2 3 4 5; do ( /usr/bin/time -f "seed$s %es" timeout $t z3-new smt.random_seed=$s sat.random_seed=$s $f 2>&1 | grep -v WARNING | tr '\n' ' '; echo ) & done
for s in 0 1; do ( /usr/bin/time -f "rel0-seed$s %es" timeout $t z3-new smt.relevancy=0 smt.random_seed=$s $f 2>&1 | grep -v WARNING | tr '\n' ' '; echo ) & done
( /usr/bin/time -f "cvc5 %es" timeout $t cvc5 --lang=smt2 $f 2>&1 | head -3 | tr '\n' ' '; echo ) &
wait
