package main

import (
	"fmt"
	"go/ast"
	"path/filepath"
	"regexp"
	"sort"
	"strconv"
	"strings"
)

type Clause struct {
	Kind   string // requires, ensures, invariant, assert
	Label  string
	Expr   SExpr
	Src    string
	Pos    string
	Known  string // known-finding case split id
}

type LoopSpec struct {
	Ordinal    int
	Invariants []*Clause
	Decreases  SExpr
	Modifies   []string
	Ensures    []*Clause // hold on every exit from the loop (oldloop = state at loop entry)
	Frame      []SExpr
	FrameSrc   []string
	HasFrame   bool
}

type GhostAssign struct {
	Name string
	Expr SExpr
	Src  string
}

type LetDecl struct {
	Name string
	Expr SExpr
	Src  string
}

type Contract struct {
	Key      string // e.g. "(*loadBalancer).Remove"
	PkgPath  string
	Iface    bool   // contract of an interface method
	Serves   []string
	Mode     string // "", "bv"
	Requires []*Clause
	Ensures  []*Clause
	GhostSet []GhostAssign // ghost-set name = expr : the ghost variable's value at exit
	Lets     []LetDecl
	Modifies []SExpr
	ModSrc   []string
	ModAll   []string // heap arrays havocked wholesale (T.f)
	Loops    map[int]*LoopSpec
	Trusted  string // non-empty: body is not verified, reason given
	Abstract bool   // function uses unmodelled features: failures are UNDECIDED unless replayed
	Acquires []string
	Lemma    bool
	Params   []SBinder // lemma parameters
	MayPanic bool
	Pos      string
	Opts     map[string]string
	Seq      int
	Extern   bool
}

type PureDecl struct {
	Name    string
	PkgPath string
	Params  []SBinder
	Ret     STypeExpr
	Body    SExpr
	Src     string
	Uninterp bool
}

type AxiomDecl struct {
	Name    string
	PkgPath string
	Expr    SExpr
	Src     string
}

type MonitorDecl struct {
	PkgPath string
	Type    string // struct type name
	Field   string // mutex field
	Level   int
	Guards  []string // "T.f" heap fields
	Inv     SExpr
	InvSrc  string
	Self    string // name the invariant uses for the owner
}

type GhostDecl struct {
	PkgPath string
	Name    string
	Type    STypeExpr
}

type NonNilDecl struct {
	PkgPath string
	Type, Field string
}

type Contracts struct {
	ByKey    map[string]*Contract // pkgpath + "." + key
	Pures    map[string]*PureDecl // pkgpath + "." + name ; also by bare name
	Axioms   []*AxiomDecl
	Monitors []*MonitorDecl
	Ghosts   []*GhostDecl
	NonNil   map[string]bool // pkgpath.Type.Field
	Immutable map[string]bool // pkgpath.Type.Field : never written after construction
	Files    []string
	CallersOnly []CallersOnlyDecl
	Noops       []string
	HavocOn     []HavocOnDecl // unspecified functions under a name prefix lose the listed ghosts
	Refines     []RefinesDecl
	PureMethods []string
}

type RefinesDecl struct {
	PkgPath, Impl, Iface string
}

type CallersOnlyDecl struct {
	PkgPath string
	Callee  string
	Callers []string
	Serves  []string
	Label   string
}

// HavocOnDecl: "havoc-on <name prefix> $g1 $g2": a call of an unspecified function whose full
// name starts with the prefix leaves the listed ghost variables unknown (so an unmodelled way
// of doing what the ghosts record is not taken for "nothing happened").
type HavocOnDecl struct {
	PkgPath string
	Prefix  string
	Ghosts  []string
}

var clauseRe = regexp.MustCompile(`^(requires|ensures|invariant|assert)(\[[^\]]*\])?\s+(.*)$`)

var keywords = map[string]bool{"contract": true, "iface": true, "pure": true, "axiom": true, "lemma": true, "monitor": true, "ghost": true,
	"serves": true, "mode": true, "requires": true, "ensures": true, "modifies": true, "modifies-all": true, "loop": true, "let": true,
	"trusted": true, "abstract": true, "acquires": true, "nonnil": true, "immutable": true, "may-panic": true, "uninterp": true, "callers-only": true, "opt": true, "noop": true, "pure-method": true, "refines": true, "ghost-set": true, "extern": true, "extern-iface": true, "havoc-on": true}

func firstWord(s string) string {
	s = strings.TrimSpace(s)
	i := strings.IndexAny(s, " \t[(")
	if i < 0 {
		return s
	}
	return s[:i]
}

func loadContracts(p *Program) (*Contracts, error) {
	cs := &Contracts{ByKey: map[string]*Contract{}, Pures: map[string]*PureDecl{}, NonNil: map[string]bool{}, Immutable: map[string]bool{}}
	for _, pkg := range p.Pkgs {
		for i, f := range pkg.Syntax {
			name := filepath.Base(pkg.CompiledGoFiles[i])
			if !strings.HasPrefix(name, "verif_") {
				continue
			}
			cs.Files = append(cs.Files, pkg.CompiledGoFiles[i])
			if err := cs.parseFile(p, pkg.PkgPath, pkg.CompiledGoFiles[i], f); err != nil {
				return nil, err
			}
		}
	}
	return cs, nil
}

func (cs *Contracts) parseFile(p *Program, pkgPath, fname string, f *ast.File) error {
	// gather logical lines: a //@ line whose first word is a keyword starts a new item; others continue.
	type lline struct {
		text string
		pos  string
	}
	var lines []lline
	for _, cg := range f.Comments {
		for _, c := range cg.List {
			if !strings.HasPrefix(c.Text, "//@") {
				continue
			}
			t := strings.TrimSpace(c.Text[3:])
			if t == "" {
				continue
			}
			pos := p.Fset.Position(c.Pos())
			w := firstWord(t)
			if keywords[w] {
				lines = append(lines, lline{t, fmt.Sprintf("%s:%d", filepath.Base(fname), pos.Line)})
			} else if len(lines) > 0 {
				lines[len(lines)-1].text += " " + t
			} else {
				return fmt.Errorf("%s:%d: continuation line without a clause", fname, pos.Line)
			}
		}
	}
	var cur *Contract
	for _, l := range lines {
		w := firstWord(l.text)
		rest := strings.TrimSpace(l.text[len(w):])
		fail := func(err error) error { return fmt.Errorf("%s: %v", l.pos, err) }
		switch w {
		case "extern", "extern-iface":
			// a trusted contract of a function (or interface method) of another module, keyed by its full name
			cur = &Contract{PkgPath: pkgPath, Loops: map[int]*LoopSpec{}, Pos: l.pos, Iface: w == "extern-iface", Opts: map[string]string{}, Key: strings.TrimSpace(rest), Trusted: "assumed contract of a dependency", Extern: true}
			if _, dup := cs.ByKey[cur.Key]; dup {
				return fail(fmt.Errorf("duplicate extern contract %s", cur.Key))
			}
			cur.Seq = len(cs.ByKey) + 1
			cs.ByKey[cur.Key] = cur
		case "contract", "iface", "lemma":
			cur = &Contract{PkgPath: pkgPath, Loops: map[int]*LoopSpec{}, Pos: l.pos, Iface: w == "iface", Lemma: w == "lemma", Opts: map[string]string{}}
			if w == "lemma" {
				// lemma name(params)
				i := strings.Index(rest, "(")
				if i < 0 {
					return fail(fmt.Errorf("lemma needs parameters"))
				}
				cur.Key = "lemma " + strings.TrimSpace(rest[:i])
				ps, err := parseBinders(strings.TrimSuffix(strings.TrimSpace(rest[i+1:]), ")"))
				if err != nil {
					return fail(err)
				}
				cur.Params = ps
			} else {
				cur.Key = strings.TrimSpace(rest)
			}
			if _, dup := cs.ByKey[pkgPath+"."+cur.Key]; dup {
				return fail(fmt.Errorf("duplicate contract %s", cur.Key))
			}
			cur.Seq = len(cs.ByKey) + 1
			cs.ByKey[pkgPath+"."+cur.Key] = cur
		case "serves":
			if cur == nil {
				return fail(fmt.Errorf("serves outside contract"))
			}
			cur.Serves = append(cur.Serves, strings.Fields(rest)...)
		case "mode":
			cur.Mode = rest
		case "opt":
			kv := strings.SplitN(rest, " ", 2)
			if len(kv) == 2 {
				cur.Opts[kv[0]] = strings.TrimSpace(kv[1])
			} else {
				cur.Opts[kv[0]] = "true"
			}
		case "trusted":
			cur.Trusted = rest
			if rest == "" {
				cur.Trusted = "trusted"
			}
		case "abstract":
			cur.Abstract = true
		case "may-panic":
			cur.MayPanic = true
		case "acquires":
			cur.Acquires = append(cur.Acquires, strings.Fields(rest)...)
		case "requires", "ensures":
			if cur == nil {
				return fail(fmt.Errorf("%s outside contract", w))
			}
			cl, err := parseClause(l.text, l.pos)
			if err != nil {
				return fail(err)
			}
			if w == "requires" {
				cur.Requires = append(cur.Requires, cl)
			} else {
				cur.Ensures = append(cur.Ensures, cl)
			}
		case "ghost-set":
			i := strings.Index(rest, "=")
			if i < 0 || cur == nil {
				return fail(fmt.Errorf("ghost-set name = expr"))
			}
			e, err := parseSpecExpr(rest[i+1:])
			if err != nil {
				return fail(err)
			}
			cur.GhostSet = append(cur.GhostSet, GhostAssign{strings.TrimSpace(rest[:i]), e, rest[i+1:]})
		case "let":
			i := strings.Index(rest, "=")
			if i < 0 {
				return fail(fmt.Errorf("let needs ="))
			}
			e, err := parseSpecExpr(rest[i+1:])
			if err != nil {
				return fail(err)
			}
			cur.Lets = append(cur.Lets, LetDecl{strings.TrimSpace(rest[:i]), e, rest[i+1:]})
		case "modifies":
			for _, part := range splitTop(rest, ',') {
				part = strings.TrimSpace(part)
				if part == "" {
					continue
				}
				e, err := parseSpecExpr(part)
				if err != nil {
					return fail(err)
				}
				cur.Modifies = append(cur.Modifies, e)
				cur.ModSrc = append(cur.ModSrc, part)
			}
		case "modifies-all":
			cur.ModAll = append(cur.ModAll, strings.Fields(strings.ReplaceAll(rest, ",", " "))...)
		case "loop":
			// loop <n> invariant[label] e | loop <n> decreases e | loop <n> modifies-all X
			fs := strings.SplitN(rest, " ", 2)
			n, err := strconv.Atoi(fs[0])
			if err != nil || len(fs) < 2 {
				return fail(fmt.Errorf("loop needs an ordinal"))
			}
			ls := cur.Loops[n]
			if ls == nil {
				ls = &LoopSpec{Ordinal: n}
				cur.Loops[n] = ls
			}
			r2 := strings.TrimSpace(fs[1])
			switch firstWord(r2) {
			case "invariant":
				cl, err := parseClause(r2, l.pos)
				if err != nil {
					return fail(err)
				}
				ls.Invariants = append(ls.Invariants, cl)
			case "ensures":
				cl, err := parseClause(r2, l.pos)
				if err != nil {
					return fail(err)
				}
				ls.Ensures = append(ls.Ensures, cl)
			case "frame":
				ls.HasFrame = true
				for _, part := range splitTop(strings.TrimSpace(strings.TrimPrefix(r2, "frame")), ',') {
					part = strings.TrimSpace(part)
					if part == "" || part == "nothing" {
						continue
					}
					e, err := parseSpecExpr(part)
					if err != nil {
						return fail(err)
					}
					ls.Frame = append(ls.Frame, e)
					ls.FrameSrc = append(ls.FrameSrc, part)
				}
			case "decreases":
				e, err := parseSpecExpr(strings.TrimPrefix(r2, "decreases"))
				if err != nil {
					return fail(err)
				}
				ls.Decreases = e
			default:
				return fail(fmt.Errorf("unknown loop clause %q", r2))
			}
		case "pure", "uninterp":
			// pure name(p T, q U) R = expr      |  uninterp name(p T) R
			i := strings.Index(rest, "(")
			j := matchParen(rest, i)
			if i < 0 || j < 0 {
				return fail(fmt.Errorf("pure needs parameters"))
			}
			pd := &PureDecl{Name: strings.TrimSpace(rest[:i]), PkgPath: pkgPath, Src: rest}
			ps, err := parseBinders(rest[i+1 : j])
			if err != nil {
				return fail(err)
			}
			pd.Params = ps
			tail := strings.TrimSpace(rest[j+1:])
			var tyStr string
			if w == "uninterp" {
				pd.Uninterp = true
				tyStr = tail
			} else {
				k := strings.Index(tail, "=")
				if k < 0 {
					return fail(fmt.Errorf("pure needs = body"))
				}
				tyStr = strings.TrimSpace(tail[:k])
				e, err := parseSpecExpr(tail[k+1:])
				if err != nil {
					return fail(err)
				}
				pd.Body = e
			}
			toks, err := lexSpec(tyStr)
			if err != nil {
				return fail(err)
			}
			tp := &sparser{toks: toks, src: tyStr}
			func() {
				defer func() {
					if r := recover(); r != nil {
						err = fmt.Errorf("bad type %q", tyStr)
					}
				}()
				pd.Ret = tp.typeExpr()
			}()
			if err != nil {
				return fail(err)
			}
			cs.Pures[pkgPath+"."+pd.Name] = pd
		case "axiom":
			i := strings.Index(rest, ":")
			if i < 0 {
				return fail(fmt.Errorf("axiom needs name:"))
			}
			e, err := parseSpecExpr(rest[i+1:])
			if err != nil {
				return fail(err)
			}
			cs.Axioms = append(cs.Axioms, &AxiomDecl{strings.TrimSpace(rest[:i]), pkgPath, e, rest[i+1:]})
		case "monitor":
			// monitor T.mu level N self s guards T.f, U.g inv expr
			md := &MonitorDecl{PkgPath: pkgPath, Self: "s"}
			fs := strings.Fields(rest)
			if len(fs) < 1 {
				return fail(fmt.Errorf("monitor needs T.field"))
			}
			tf := strings.SplitN(fs[0], ".", 2)
			if len(tf) != 2 {
				return fail(fmt.Errorf("monitor needs T.field"))
			}
			md.Type, md.Field = tf[0], tf[1]
			r := strings.TrimSpace(rest[len(fs[0]):])
			if i := strings.Index(r, " inv "); i >= 0 {
				md.InvSrc = r[i+5:]
				e, err := parseSpecExpr(md.InvSrc)
				if err != nil {
					return fail(err)
				}
				md.Inv = e
				r = r[:i]
			}
			if i := strings.Index(r, "guards "); i >= 0 {
				md.Guards = strings.Fields(strings.ReplaceAll(r[i+7:], ",", " "))
				r = r[:i]
			}
			fs = strings.Fields(r)
			for k := 0; k+1 < len(fs); k += 2 {
				switch fs[k] {
				case "level":
					md.Level, _ = strconv.Atoi(fs[k+1])
				case "self":
					md.Self = fs[k+1]
				}
			}
			cs.Monitors = append(cs.Monitors, md)
		case "ghost":
			fs := strings.SplitN(rest, " ", 2)
			if len(fs) != 2 {
				return fail(fmt.Errorf("ghost name type"))
			}
			toks, err := lexSpec(fs[1])
			if err != nil {
				return fail(err)
			}
			tp := &sparser{toks: toks, src: fs[1]}
			cs.Ghosts = append(cs.Ghosts, &GhostDecl{pkgPath, fs[0], tp.typeExpr()})
		case "refines":
			fs := strings.Fields(rest)
			if len(fs) != 2 {
				return fail(fmt.Errorf("refines Impl Iface.Method"))
			}
			cs.Refines = append(cs.Refines, RefinesDecl{pkgPath, fs[0], fs[1]})
		case "havoc-on":
			fs := strings.Fields(rest)
			if len(fs) < 2 {
				return fail(fmt.Errorf("havoc-on <prefix> $ghost..."))
			}
			cs.HavocOn = append(cs.HavocOn, HavocOnDecl{pkgPath, fs[0], fs[1:]})
		case "noop":
			cs.Noops = append(cs.Noops, pkgPath+"."+strings.TrimSpace(rest))
		case "pure-method":
			for _, x := range strings.Fields(strings.ReplaceAll(rest, ",", " ")) {
				if strings.Contains(x, "/") {
					cs.PureMethods = append(cs.PureMethods, x) // full path of a method of another module
				} else {
					cs.PureMethods = append(cs.PureMethods, pkgPath+"."+x)
				}
			}
		case "nonnil":
			for _, x := range strings.Fields(strings.ReplaceAll(rest, ",", " ")) {
				cs.NonNil[pkgPath+"."+x] = true
			}
		case "immutable":
			for _, x := range strings.Fields(strings.ReplaceAll(rest, ",", " ")) {
				cs.Immutable[pkgPath+"."+x] = true
			}
		case "callers-only":
			// callers-only[label] Callee : Caller1, Caller2  serves Cxx
			lab := ""
			if strings.HasPrefix(rest, "[") {
				k := strings.Index(rest, "]")
				lab = rest[1:k]
				rest = strings.TrimSpace(rest[k+1:])
			}
			var serves []string
			if i := strings.Index(rest, " serves "); i >= 0 {
				serves = strings.Fields(rest[i+8:])
				rest = rest[:i]
			}
			i := strings.Index(rest, ":")
			if i < 0 {
				return fail(fmt.Errorf("callers-only Callee : Callers"))
			}
			var callers []string
			for _, c := range strings.Split(rest[i+1:], ",") {
				callers = append(callers, strings.TrimSpace(c))
			}
			cs.CallersOnly = append(cs.CallersOnly, CallersOnlyDecl{pkgPath, strings.TrimSpace(rest[:i]), callers, serves, lab})
		default:
			return fail(fmt.Errorf("unknown keyword %q", w))
		}
	}
	return nil
}

func matchParen(s string, i int) int {
	if i < 0 {
		return -1
	}
	d := 0
	for j := i; j < len(s); j++ {
		switch s[j] {
		case '(':
			d++
		case ')':
			d--
			if d == 0 {
				return j
			}
		}
	}
	return -1
}

func splitTop(s string, sep rune) []string {
	var out []string
	d := 0
	start := 0
	for i, c := range s {
		switch c {
		case '(', '[', '{':
			d++
		case ')', ']', '}':
			d--
		default:
			if c == sep && d == 0 {
				out = append(out, s[start:i])
				start = i + 1
			}
		}
	}
	return append(out, s[start:])
}

func parseClause(text, pos string) (*Clause, error) {
	m := clauseRe.FindStringSubmatch(strings.TrimSpace(text))
	if m == nil {
		return nil, fmt.Errorf("bad clause %q", text)
	}
	cl := &Clause{Kind: m[1], Src: strings.TrimSpace(m[3]), Pos: pos}
	if m[2] != "" {
		cl.Label = m[2][1 : len(m[2])-1]
		if i := strings.Index(cl.Label, " known="); i >= 0 {
			cl.Known = strings.TrimSpace(cl.Label[i+7:])
			cl.Label = cl.Label[:i]
		}
	}
	e, err := parseSpecExpr(cl.Src)
	if err != nil {
		return nil, err
	}
	cl.Expr = e
	return cl, nil
}

func parseBinders(s string) ([]SBinder, error) {
	s = strings.TrimSpace(s)
	if s == "" {
		return nil, nil
	}
	toks, err := lexSpec(s)
	if err != nil {
		return nil, err
	}
	p := &sparser{toks: toks, src: s}
	var out []SBinder
	defer func() { recover() }()
	for {
		name := p.ident()
		te := p.typeExpr()
		out = append(out, SBinder{name, te})
		if !p.accept(",") {
			break
		}
	}
	if p.i < len(p.toks) {
		return nil, fmt.Errorf("bad binders %q", s)
	}
	return out, nil
}

func (cs *Contracts) sortedKeys() []string {
	var ks []string
	for k := range cs.ByKey {
		ks = append(ks, k)
	}
	sort.Strings(ks)
	return ks
}
