package main

// Function values and interior pointers as first-class terms in specifications:
//   fnIs(h, "<types.Func full name>")   h is that function or a method value of it
//   recvOf(h, "*T")                     the receiver bound in a method value
//   addr(x.F)                           the address of struct-typed field F of *x (only an identity:
//                                       nothing is ever read or written through it by the verifier)

import (
	"fmt"
	"go/types"
	"hash/fnv"
	"strings"

	"golang.org/x/tools/go/ssa"
)

// fnIdentity names a function independently of how it is reached (static, closure, method value).
func fnIdentity(fn *ssa.Function) string {
	if obj, ok := fn.Object().(*types.Func); ok && obj != nil {
		return obj.FullName()
	}
	return fnPkgPath(fn) + "." + fnKey(fn)
}

func fnCode(id string) int64 {
	h := fnv.New32a()
	h.Write([]byte(id))
	return int64(h.Sum32()) + 1
}

func (fc *FnCtx) fnCodeOf(t Term) Term {
	fc.TE.G.DeclareFun("fncode", []string{SInt}, SInt)
	return app(SInt, "fncode", t)
}

func (fc *FnCtx) fnRecvOf(t Term) Term {
	fc.TE.G.DeclareFun("fnrecv", []string{SInt}, SInt)
	return app(SInt, "fnrecv", t)
}

// describeClosure records what a freshly made closure value is.
func (fc *FnCtx) describeClosure(id Term, fn *ssa.Function, bindings []Val) {
	fc.S.Assume(Eq(fc.fnCodeOf(id), IntLit(fnCode(fnIdentity(fn)))), "identity of the function value")
	if strings.HasSuffix(fn.Name(), "$bound") && len(bindings) == 1 && bindings[0].P == nil && !bindings[0].T.IsZero() && bindings[0].T.Sort == SInt {
		fc.S.Assume(Eq(fc.fnRecvOf(id), bindings[0].T), "receiver bound in the method value")
	}
}

// interiorTerm is the identity of &(*ref).field for a struct-typed field.
func (fc *FnCtx) interiorTerm(stT types.Type, field int, ref Term) Term {
	st := stT.Underlying().(*types.Struct)
	name := "iptr." + sanitize(types.TypeString(stT, nil)) + "." + st.Field(field).Name()
	fc.TE.G.DeclareFun(name, []string{SInt}, SInt)
	t := app(SInt, name, ref)
	fc.S.Assume(Implies(Not(Eq(ref, IntLit(0))), app(SBool, "<", t, IntLit(0))), "address of a field: not nil and no allocated object (negative identities)")
	return t
}

// ptrAsTerm turns an interior pointer to a struct-typed field into a term, for
// callees that are only specified (never executed symbolically).
func (fc *FnCtx) ptrAsTerm(v Val) (Term, bool) {
	if v.P == nil || !v.T.IsZero() {
		return v.T, !v.T.IsZero()
	}
	p := v.P
	if p.Root != RField || len(p.Path) != 0 {
		return Term{}, false
	}
	st, ok := p.St.Underlying().(*types.Struct)
	if !ok || !isStruct(st.Field(p.Field).Type()) {
		return Term{}, false
	}
	return fc.interiorTerm(p.St, p.Field, p.Ref), true
}

func fieldIndex(st *types.Struct, name string) (int, error) {
	for i := 0; i < st.NumFields(); i++ {
		if st.Field(i).Name() == name {
			return i, nil
		}
	}
	return 0, fmt.Errorf("no field %s", name)
}

// havocOn applies the havoc-on declarations to a call of an unspecified function.
func (fc *FnCtx) havocOn(st *State, name string) {
	for _, d := range fc.E.CS.HavocOn {
		if !strings.HasPrefix(name, d.Prefix) {
			continue
		}
		for _, g := range d.Ghosts {
			hv, ok := fc.E.heapByName(fc, d.PkgPath, g)
			if !ok {
				fc.unsup("havoc-on %s: unknown ghost %q", d.Prefix, g)
			}
			st.Heap[hv.Name] = fc.S.Fresh(hv.Name+".ext", hv.Sort)
		}
		fc.notes.Assumed["unspecified "+name+": ghost state "+strings.Join(d.Ghosts, " ")+" treated as unknown afterwards"] = true
	}
}
