package main

// Function values and interior pointers as first-class terms in specifications:
//   fnIs(h, "<types.Func full name>")   h is that function or a method value of it
//   recvOf(h, "*T")                     the receiver bound in a method value
//   addr(x.F)                           the address of struct-typed field F of *x (only an identity:
//                                       nothing is ever read or written through it by the verifier)

import (
	"fmt"
	"go/types"
	"hash/fnv"
	"sort"
	"strings"

	"golang.org/x/tools/go/ssa"
)

// fnIdentity names a function independently of how it is reached (static, closure, method value).
func fnIdentity(fn *ssa.Function) string {
	if obj, ok := fn.Object().(*types.Func); ok && obj != nil {
		return obj.FullName()
	}
	return fnPkgPath(fn) + "." + fnKey(fn)
}

func fnCode(id string) int64 {
	h := fnv.New32a()
	h.Write([]byte(id))
	return int64(h.Sum32()) + 1
}

func (fc *FnCtx) fnCodeOf(t Term) Term {
	fc.TE.G.DeclareFun("fncode", []string{SInt}, SInt)
	return app(SInt, "fncode", t)
}

func (fc *FnCtx) fnRecvOf(t Term) Term {
	fc.TE.G.DeclareFun("fnrecv", []string{SInt}, SInt)
	return app(SInt, "fnrecv", t)
}

// describeClosure records what a freshly made closure value is.
func (fc *FnCtx) describeClosure(id Term, fn *ssa.Function, bindings []Val) {
	fc.S.Assume(Eq(fc.fnCodeOf(id), IntLit(fnCode(fnIdentity(fn)))), "identity of the function value")
	if strings.HasSuffix(fn.Name(), "$bound") && len(bindings) == 1 && bindings[0].P == nil && !bindings[0].T.IsZero() && bindings[0].T.Sort == SInt {
		fc.S.Assume(Eq(fc.fnRecvOf(id), bindings[0].T), "receiver bound in the method value")
	}
}

// interiorTerm is the identity of &(*ref).field for a struct-typed field.
func (fc *FnCtx) interiorTerm(stT types.Type, field int, ref Term) Term {
	st := stT.Underlying().(*types.Struct)
	name := "iptr." + sanitize(types.TypeString(stT, nil)) + "." + st.Field(field).Name()
	fc.TE.G.DeclareFun(name, []string{SInt}, SInt)
	t := app(SInt, name, ref)
	fc.S.Assume(Implies(Not(Eq(ref, IntLit(0))), app(SBool, "<", t, IntLit(0))), "address of a field: not nil and no allocated object (negative identities)")
	return t
}

// ptrAsTerm turns an interior pointer to a struct-typed field into a term, for
// callees that are only specified (never executed symbolically).
func (fc *FnCtx) ptrAsTerm(v Val) (Term, bool) {
	if v.P == nil || !v.T.IsZero() {
		return v.T, !v.T.IsZero()
	}
	p := v.P
	if p.Root != RField || len(p.Path) != 0 {
		return Term{}, false
	}
	st, ok := p.St.Underlying().(*types.Struct)
	if !ok || !isStruct(st.Field(p.Field).Type()) {
		return Term{}, false
	}
	return fc.interiorTerm(p.St, p.Field, p.Ref), true
}

func fieldIndex(st *types.Struct, name string) (int, error) {
	for i := 0; i < st.NumFields(); i++ {
		if st.Field(i).Name() == name {
			return i, nil
		}
	}
	return 0, fmt.Errorf("no field %s", name)
}

// havocOn applies the havoc-on declarations to a call of an unspecified function.
func (fc *FnCtx) havocOn(st *State, name string) {
	for _, d := range fc.E.CS.HavocOn {
		if !strings.HasPrefix(name, d.Prefix) {
			continue
		}
		for _, g := range d.Ghosts {
			hv, ok := fc.E.heapByName(fc, d.PkgPath, g)
			if !ok {
				fc.unsup("havoc-on %s: unknown ghost %q", d.Prefix, g)
			}
			st.Heap[hv.Name] = fc.S.Fresh(hv.Name+".ext", hv.Sort)
		}
		fc.notes.Assumed["unspecified "+name+": ghost state "+strings.Join(d.Ghosts, " ")+" treated as unknown afterwards"] = true
	}
}

// keyWith(m, "F", v): the key of map m whose entry has field F equal to v. It is defined only
// when F is injective over the entries present: the axiom says that then keyWith inverts the
// map. An invariant "forall k :: k in m ==> keyWith(m, F, m[k].F) == k" states injectivity with
// one bound variable; the two-variable form (forall k1 k2 ...) as an assumption is instantiated
// for every pair of entry terms in a query, which made solving times erratic.
func (fc *FnCtx) keyWith(st *State, m Term, mapTy types.Type, field string, v Term) (Term, types.Type) {
	dh, vh, mt := fc.mapHeaps(mapTy)
	sst, ok := mt.Elem().Underlying().(*types.Struct)
	if !ok {
		fc.unsup("keyWith: entries of %s are not structs", mapTy)
	}
	fi, err := fieldIndex(sst, field)
	if err != nil {
		fc.unsup("keyWith: %v", err)
	}
	te := fc.TE
	ks := te.SortOf(mt.Key())
	vs := te.SortOf(mt.Elem())
	fs := te.SortOf(sst.Field(fi).Type())
	if v.Sort != fs {
		fc.unsup("keyWith: value of sort %s for field %s of sort %s", v.Sort, field, fs)
	}
	cs, ds := ArraySort(ks, vs), ArraySort(ks, SBool)
	name := "keywith." + sanitize(types.TypeString(mt, nil)) + "." + field
	te.G.DeclareFun(name, []string{cs, ds, fs}, ks)
	proj := func(k string) string {
		return te.FieldOf(mt.Elem(), Term{fmt.Sprintf("(select c!kw %s)", k), vs}, fi).S
	}
	ax := fmt.Sprintf("(assert (forall ((c!kw %s) (d!kw %s) (v!kw %s)) (! (=> (forall ((k1!kw %s) (k2!kw %s)) (=> (and (select d!kw k1!kw) (select d!kw k2!kw) (not (= k1!kw k2!kw))) (not (= %s %s)))) (forall ((k!kw %s)) (! (=> (select d!kw k!kw) (= (%s c!kw d!kw %s) k!kw)) :pattern ((select c!kw k!kw)) :qid keywith.inv))) :pattern ((%s c!kw d!kw v!kw)) :qid keywith.def)))",
		cs, ds, fs, ks, ks, proj("k1!kw"), proj("k2!kw"), ks, name, proj("k!kw"), name)
	te.G.AddAxiom(name+".def", ax, name)
	return app(ks, name, Select(fc.heapGet(st, vh), m), Select(fc.heapGet(st, dh), m), v), mt.Key()
}

// spawn: "go f(...)". The goroutine's body is not executed here (there is no thread model);
// what is recorded is that a function under contract was started, with which captured
// variables - its preconditions are obligations at the spawn point - so that a parent's
// contract can say which goroutines it starts (spec: spawned("<contract key>")).
func spawnedVar(pkgPath, key string) HeapVar {
	return HeapVar{"$spawned." + sanitize(pkgPath+"."+key), SBool, HGhost}
}

func (fc *FnCtx) spawn(st *State, x *ssa.Go) {
	c := x.Common()
	var fn *ssa.Function
	var bindings []ssa.Value
	switch v := c.Value.(type) {
	case *ssa.MakeClosure:
		fn, _ = v.Fn.(*ssa.Function)
		bindings = v.Bindings
	case *ssa.Function:
		fn = v
	}
	if fn == nil {
		return
	}
	ct := fc.E.contractFor(fn)
	if ct == nil {
		return
	}
	hv := spawnedVar(ct.PkgPath, strings.TrimPrefix(ct.Key, ct.PkgPath+"."))
	fc.heapSet(st, hv, TTrue)
	env := fc.specEnv(st)
	env.PkgPath = ct.PkgPath
	env.Vars = map[string]TVal{}
	env.Macros = map[string]SExpr{}
	env.AtBlock = nil
	for _, l := range ct.Lets {
		env.Macros[l.Name] = l.Expr
	}
	for i, p := range fn.Params {
		if i < len(c.Args) {
			env.Vars[p.Name()] = TVal{T: fc.val(c.Args[i]).T, Ty: p.Type()}
		}
	}
	for i, fv := range fn.FreeVars {
		if i >= len(bindings) {
			break
		}
		b := fc.val(bindings[i])
		if pt, ok := fv.Type().Underlying().(*types.Pointer); ok && !isStruct(pt.Elem()) {
			// captured by reference: the contract names the variable by its content
			var content Term
			if b.P != nil {
				content = fc.loadPtr(st, b.P)
			} else {
				content = Select(fc.heapGet(st, fc.TE.CellHeap(pt.Elem())), b.T)
			}
			env.Vars[fv.Name()] = TVal{T: content, Ty: pt.Elem()}
		} else {
			env.Vars[fv.Name()] = TVal{T: b.T, Ty: fv.Type(), P: b.P}
		}
	}
	site := siteOf(fc, x)
	for _, cl := range ct.Requires {
		if strings.HasPrefix(cl.Label, "env-") || cl.Label == "fresh-step" {
			continue
		}
		t := fc.evalClause(env, cl)
		fc.oblige(st, "spawn.requires", ct.Key+"."+cl.Label, site, t, cl.Src)
	}
	fc.notes.Assumed["goroutine "+ct.Key+" started at "+site+": its body is verified separately against its contract, interleaving is not modelled"] = true
}

// ---- names of parameters and locals (rename resilience) --------------------------------
//
// Contracts name parameters and local variables. So that a pure rename in the code does not
// make a contract unbindable (a false alarm), the ledger records, per function under
// contract, the parameter names by position and the local variables by declaration order
// within their type; when a recorded name no longer exists and the current function has a
// variable in the same position under another name, the recorded name is read as an alias
// of it (the run lists every alias it used).

type LocalName struct {
	Name string `json:"n"`
	Type string `json:"t"`
}

type FnNames struct {
	Params []string    `json:"params"`
	Locals []LocalName `json:"locals"`
}

func namesOf(fn *ssa.Function) FnNames {
	var out FnNames
	for _, p := range fn.Params {
		out.Params = append(out.Params, p.Name())
	}
	seen := map[types.Object]bool{}
	var objs []*types.Var
	add := func(o types.Object) {
		v, ok := o.(*types.Var)
		if !ok || v == nil || seen[v] || v.Pkg() == nil || v.Parent() == v.Pkg().Scope() || v.IsField() {
			return
		}
		seen[v] = true
		objs = append(objs, v)
	}
	for _, b := range fn.Blocks {
		for _, in := range b.Instrs {
			if d, ok := in.(*ssa.DebugRef); ok {
				add(d.Object())
			}
		}
	}
	sort.SliceStable(objs, func(i, j int) bool { return objs[i].Pos() < objs[j].Pos() })
	isParam := map[string]bool{}
	for _, p := range out.Params {
		isParam[p] = true
	}
	for _, v := range objs {
		if isParam[v.Name()] {
			continue
		}
		out.Locals = append(out.Locals, LocalName{v.Name(), v.Type().String()})
	}
	return out
}

// aliasesFor maps names recorded in the ledger that no longer exist in fn to the names now
// standing in the same position.
func aliasesFor(rec FnNames, cur FnNames) map[string]string {
	al := map[string]string{}
	have := map[string]bool{}
	for _, p := range cur.Params {
		have[p] = true
	}
	for _, l := range cur.Locals {
		have[l.Name] = true
	}
	if len(rec.Params) == len(cur.Params) {
		for i := range rec.Params {
			if rec.Params[i] != cur.Params[i] && !have[rec.Params[i]] {
				al[rec.Params[i]] = cur.Params[i]
			}
		}
	}
	byType := func(ls []LocalName) map[string][]string {
		m := map[string][]string{}
		for _, l := range ls {
			m[l.Type] = append(m[l.Type], l.Name)
		}
		return m
	}
	r, c := byType(rec.Locals), byType(cur.Locals)
	for t, rn := range r {
		cn := c[t]
		if len(cn) != len(rn) {
			continue
		}
		for i := range rn {
			if rn[i] != cn[i] && !have[rn[i]] {
				al[rn[i]] = cn[i]
			}
		}
	}
	return al
}

// boxedInfo: what a MakeInterface instruction put into an interface value.
type boxedInfo struct {
	typ types.Type
	val Val
}

// havocSliceArg: an unspecified callee may overwrite the elements of a slice it is given
// (Read(buf), rand.Shuffle, sort functions, ...).
func (fc *FnCtx) havocSliceArg(st *State, a ssa.Value, av Val) {
	t, ok := a.Type().Underlying().(*types.Slice)
	if !ok || av.T.IsZero() || fc.TE.BV {
		return
	}
	hv := fc.TE.ElemHeap(t.Elem())
	arr := app(SInt, "sl_arr", av.T)
	inner := arrayRange(hv.Sort)
	cur := fc.heapGet(st, hv)
	fresh := fc.S.Fresh("ext.elems", inner)
	fc.heapSet(st, hv, Ite(Eq(arr, IntLit(0)), cur, Store(cur, arr, fresh)))
}
