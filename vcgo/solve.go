package main

import (
	"bytes"
	"context"
	"crypto/sha256"
	"encoding/hex"
	"fmt"
	"os"
	"os/exec"
	"path/filepath"
	"strings"
	"sync"
	"time"
)

type SolveResult struct {
	Verdict string  `json:"verdict"` // unsat (proved), sat, unknown, timeout, error
	Solver  string  `json:"solver"`
	Secs    float64 `json:"secs"`
	Output  string  `json:"output,omitempty"`
	File    string  `json:"file"`
	All     map[string]string `json:"all,omitempty"`
}

type solverSpec struct {
	Name string
	Args func(file string, timeout time.Duration) []string
}

var solvers = []solverSpec{
	{"z3-new", func(f string, t time.Duration) []string {
		return []string{"z3-new", fmt.Sprintf("-T:%d", int(t.Seconds())+1), f}
	}},
	{"cvc5", func(f string, t time.Duration) []string {
		return []string{"cvc5", "--lang=smt2", fmt.Sprintf("--tlimit=%d", t.Milliseconds()), f}
	}},
	{"z3-new-rel0", func(f string, t time.Duration) []string {
		return []string{"z3-new", "smt.relevancy=0", fmt.Sprintf("-T:%d", int(t.Seconds())+1), f}
	}},
	{"z3", func(f string, t time.Duration) []string {
		return []string{"z3", fmt.Sprintf("-T:%d", int(t.Seconds())+1), f}
	}},
	// retry stage: other random seeds and quantifier settings
	{"z3-new-seed7", func(f string, t time.Duration) []string {
		return []string{"z3-new", "smt.random_seed=7", "sat.random_seed=7", fmt.Sprintf("-T:%d", int(t.Seconds())+1), f}
	}},
	{"z3-new-rel0-seed13", func(f string, t time.Duration) []string {
		return []string{"z3-new", "smt.relevancy=0", "smt.random_seed=13", fmt.Sprintf("-T:%d", int(t.Seconds())+1), f}
	}},
	{"z3-new-eager", func(f string, t time.Duration) []string {
		return []string{"z3-new", "smt.qi.eager_threshold=100", fmt.Sprintf("-T:%d", int(t.Seconds())+1), f}
	}},
}

func runSolver(ctx context.Context, sp solverSpec, file string, timeout time.Duration) (string, string, float64) {
	t0 := time.Now()
	args := sp.Args(file, timeout)
	cctx, cancel := context.WithTimeout(ctx, timeout+2*time.Second)
	defer cancel()
	cmd := exec.CommandContext(cctx, args[0], args[1:]...)
	var out bytes.Buffer
	cmd.Stdout = &out
	cmd.Stderr = &out
	_ = cmd.Run()
	secs := time.Since(t0).Seconds()
	text := out.String()
	first := ""
	for _, ln := range strings.Split(text, "\n") {
		ln = strings.TrimSpace(ln)
		if ln == "" || strings.HasPrefix(ln, "WARNING") || strings.HasPrefix(ln, "(warning") {
			continue
		}
		first = ln
		break
	}
	switch first {
	case "unsat", "sat", "unknown":
		return first, text, secs
	case "timeout":
		return "timeout", text, secs
	}
	if cctx.Err() != nil || ctx.Err() != nil {
		return "timeout", text, secs
	}
	if strings.Contains(text, "timeout") || strings.Contains(text, "interrupted") {
		return "timeout", text, secs
	}
	return "error", text, secs
}

// solveOne races the solvers on one obligation; the first decisive answer
// (sat/unsat) wins. With all=true every solver is run to completion and
// disagreements are reported.
// queryCache (flag -cache, used by the self-test only, never by the registered checks): a query
// whose exact text was already decided unsat is not solved again, so that a run on a tree that
// differs in one function re-solves only that function's queries.
var queryCache string

func cacheFile(text string) string {
	h := sha256.Sum256([]byte(text))
	return filepath.Join(queryCache, hex.EncodeToString(h[:16]))
}

func solveOne(o *Obligation, dir string, timeout time.Duration, all bool, order []int) *SolveResult {
	logic := "ALL"
	text := o.Render(logic)
	if queryCache != "" && !o.Canary {
		if b, err := os.ReadFile(cacheFile(text)); err == nil && strings.HasPrefix(string(b), "unsat") {
			return &SolveResult{Verdict: "unsat", Solver: "cache", All: map[string]string{"cache": "unsat"}}
		}
	}
	file := filepath.Join(dir, sanitize(o.Name)+".smt2")
	if len(file) > 240 {
		file = file[:230] + fmt.Sprintf("_%d.smt2", len(o.Name))
	}
	_ = os.WriteFile(file, []byte(text), 0o644)
	res := &SolveResult{File: file, All: map[string]string{}}
	type ans struct {
		solver, verdict, out string
		secs                 float64
	}
	ctx, cancel := context.WithCancel(context.Background())
	defer cancel()
	ch := make(chan ans, len(solvers))
	var wg sync.WaitGroup
	for _, i := range order {
		sp := solvers[i]
		wg.Add(1)
		go func() {
			defer wg.Done()
			v, out, secs := runSolver(ctx, sp, file, timeout)
			ch <- ans{sp.Name, v, out, secs}
		}()
	}
	go func() { wg.Wait(); close(ch) }()
	var best *ans
	for a := range ch {
		a := a
		res.All[a.solver] = a.verdict
		if a.verdict == "sat" || a.verdict == "unsat" {
			if best == nil || (best.verdict != "sat" && best.verdict != "unsat") {
				best = &a
				if !all {
					cancel()
				}
			} else if best.verdict != a.verdict && ctx.Err() == nil {
				res.Verdict = "error"
				res.Output = fmt.Sprintf("solver disagreement: %s=%s %s=%s", best.solver, best.verdict, a.solver, a.verdict)
				res.Solver = "portfolio"
				return res
			}
		} else if best == nil {
			best = &a
		} else if (best.verdict == "error") && a.verdict != "error" {
			best = &a
		}
	}
	if best == nil {
		res.Verdict = "error"
		return res
	}
	res.Verdict, res.Solver, res.Secs = best.verdict, best.solver, best.secs
	if queryCache != "" && best.verdict == "unsat" && !o.Canary {
		_ = os.MkdirAll(queryCache, 0o755)
		_ = os.WriteFile(cacheFile(text), []byte("unsat "+best.solver+"\n"), 0o644)
	}
	if best.verdict != "unsat" {
		out := best.out
		if len(out) > 2000 {
			out = out[:2000]
		}
		res.Output = out
	}
	return res
}

// solveAll discharges obligations in parallel.
func solveAll(obls []*Obligation, dir string, timeout time.Duration, all bool, par int, seed int64) {
	_ = os.MkdirAll(dir, 0o755)
	// quick tier: z3 5.1 in two configurations and cvc5; the thorough tier adds z3 4.8.12
	// (a second random seed in the first stage: solving time of the quantified queries is
	// bimodal in the seed - under a second for most seeds, minutes for a few)
	order := []int{0, 1, 2, 4}
	if seed%2 == 1 {
		order = []int{1, 0, 2, 4}
	}
	if all {
		order = append(order, 3)
	}
	sem := make(chan struct{}, par)
	var wg sync.WaitGroup
	for _, o := range obls {
		o := o
		wg.Add(1)
		sem <- struct{}{}
		go func() {
			defer wg.Done()
			defer func() { <-sem }()
			r := solveOne(o, dir, timeout, all, order)
			if r.Verdict != "unsat" && r.Verdict != "sat" && !all && !o.Canary && !o.NoRetry {
				// one retry with a longer limit and other solver configurations before
				// anything is called a failure
				r2 := solveOne(o, dir, 3*timeout, false, []int{0, 1, 2, 4, 5, 6})
				if r2.Verdict == "unsat" || r2.Verdict == "sat" {
					r = r2
				}
			}
			o.Result = r
		}()
	}
	wg.Wait()
}
