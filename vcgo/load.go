package main

import (
	"fmt"
	"go/token"
	"os"
	"sort"
	"strings"

	"golang.org/x/tools/go/packages"
	"golang.org/x/tools/go/ssa"
	"golang.org/x/tools/go/ssa/ssautil"
)

// Program is the loaded /repo working tree: syntax, types and SSA of every
// package of the module (built with -tags verif so that the contract files
// and ghost drivers are part of their packages).
type Program struct {
	Fset  *token.FileSet
	Pkgs  []*packages.Package
	SSA   *ssa.Program
	ByPath map[string]*packages.Package
	Module string
}

func loadProgram(repo string, patterns []string) (*Program, error) {
	cfg := &packages.Config{
		Mode: packages.NeedName | packages.NeedFiles | packages.NeedCompiledGoFiles |
			packages.NeedImports | packages.NeedTypes |
			packages.NeedSyntax | packages.NeedTypesInfo | packages.NeedTypesSizes | packages.NeedModule,
		Dir:        repo,
		BuildFlags: []string{"-tags=verif", "-mod=mod"},
		Env:        goEnv(),
	}
	pkgs, err := packages.Load(cfg, patterns...)
	if err != nil {
		return nil, err
	}
	var errs []string
	packages.Visit(pkgs, nil, func(p *packages.Package) {
		for _, e := range p.Errors {
			errs = append(errs, e.Error())
		}
	})
	if len(errs) > 0 {
		sort.Strings(errs)
		return nil, fmt.Errorf("load errors:\n%s", strings.Join(errs, "\n"))
	}
	prog, _ := ssautil.Packages(pkgs, ssa.InstantiateGenerics|ssa.GlobalDebug)
	prog.Build()
	p := &Program{Fset: pkgs[0].Fset, Pkgs: pkgs, SSA: prog, ByPath: map[string]*packages.Package{}}
	packages.Visit(pkgs, nil, func(pp *packages.Package) {
		p.ByPath[pp.PkgPath] = pp
		if pp.Module != nil && pp.Module.Main {
			p.Module = pp.Module.Path
		}
	})
	return p, nil
}

// goEnv is the environment for the go list run by go/packages: the newer
// toolchain that vcgo itself is linked against, offline.
func goEnv() []string {
	os.Setenv("PATH", "/opt/veriftools/go1.26.8/bin:"+os.Getenv("PATH"))
	var env []string
	for _, e := range os.Environ() {
		if strings.HasPrefix(e, "GOTOOLCHAIN=") || strings.HasPrefix(e, "GOFLAGS=") || strings.HasPrefix(e, "PATH=") || strings.HasPrefix(e, "GOSUMDB=") {
			continue
		}
		env = append(env, e)
	}
	return append(env, "PATH="+os.Getenv("PATH"), "GOTOOLCHAIN=local", "GOFLAGS=-mod=mod", "GOPROXY=off", "GOSUMDB=off")
}
