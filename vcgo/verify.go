package main

import (
	"fmt"
	"go/types"
	"sort"
	"strings"

	"golang.org/x/tools/go/ssa"
)

// FnResult is the outcome of generating obligations for one contract.
type FnResult struct {
	Key         string
	FullName    string
	Contract    *Contract
	Script      *Script
	Unsupported string
	Notes       *RunNotes
	BV          bool
	Names       FnNames
}

func (e *Engine) teFor(ct *Contract) *TypeEnv {
	if ct != nil && ct.Mode == "bv" {
		return e.TEBV
	}
	return e.TE
}

// verifyContract generates the obligations of one contract (function or lemma).
func (e *Engine) verifyContract(ct *Contract) (res *FnResult) {
	res = &FnResult{Key: ct.Key, Contract: ct, Notes: newNotes(), BV: ct.Mode == "bv"}
	res.FullName = strings.TrimPrefix(ct.PkgPath, "github.com/andydunstall/piko/") + "." + ct.Key
	te := e.teFor(ct)
	S := newScript(te.G, res.FullName)
	res.Script = S
	defer func() {
		if r := recover(); r != nil {
			if u, ok := r.(unsupported); ok {
				res.Unsupported = u.msg
				return
			}
			if se, ok := r.(specErr); ok {
				res.Unsupported = "contract error: " + se.msg
				return
			}
			panic(r)
		}
	}()
	if ct.Lemma {
		e.verifyLemma(ct, res, te, S)
		return
	}
	fn := e.fnByKey[ct.PkgPath+"."+ct.Key]
	if fn == nil {
		res.Unsupported = "no function " + ct.Key + " in " + ct.PkgPath
		return
	}
	if len(fn.Blocks) == 0 {
		res.Unsupported = "function has no body"
		return
	}
	fc := &FnCtx{E: e, Fn: fn, C: ct, S: S, TE: te, vals: map[ssa.Value]Val{}, initHeap: map[string]Term{}, notes: res.Notes, params: map[string]Val{}, paramTy: map[string]types.Type{}, held: map[string]bool{}}
	fc.top = fc
	res.Names = namesOf(fn)
	if rec, ok := e.recorded[res.FullName]; ok {
		fc.alias = aliasesFor(rec, res.Names)
		for old, cur := range fc.alias {
			res.Notes.Assumed["contract name '"+old+"' of "+res.FullName+" read as '"+cur+"' (the variable in the same position was renamed)"] = true
		}
	}
	st := &State{PC: TTrue, Heap: map[string]Term{}}
	S.Assume(app(SBool, ">=", fc.heapGet(st, nextVar), IntLit(1)), "allocation counter starts above nil")
	S.Assume(app(SBool, ">=", fc.heapGet(st, nowVar), IntLit(0)), "clock")
	bindIn := func(v ssa.Value, name string, isRecv bool) {
		t := v.Type()
		c := S.Fresh(name, te.SortOf(t))
		fc.vals[v] = tv(c)
		fc.params[name] = tv(c)
		fc.paramTy[name] = t
		fc.assumeWF(st, c, t, "parameter "+name)
		if isRecv {
			if _, ok := t.Underlying().(*types.Pointer); ok {
				S.Assume(Not(Eq(c, IntLit(0))), "receiver is not nil")
			}
		}
	}
	for i, p := range fn.Params {
		bindIn(p, p.Name(), i == 0 && fn.Signature.Recv() != nil)
	}
	for _, fv := range fn.FreeVars {
		// a captured variable is a pointer to its cell
		t := fv.Type()
		c := S.Fresh(fv.Name(), SInt)
		if pt, ok := t.Underlying().(*types.Pointer); ok && !isStruct(pt.Elem()) {
			fc.vals[fv] = Val{T: c, P: &Ptr{Root: RCell, Ref: c, Elem: pt.Elem()}}
			// in contracts the captured variable is named by its content at entry
			content := S.Define(fv.Name()+".val", Select(fc.heapGet(st, te.CellHeap(pt.Elem())), c))
			fc.assumeWF(st, content, pt.Elem(), "captured "+fv.Name())
			fc.params[fv.Name()] = tv(content)
			fc.paramTy[fv.Name()] = pt.Elem()
		} else {
			fc.vals[fv] = tv(c)
			fc.params[fv.Name()] = fc.vals[fv]
			fc.paramTy[fv.Name()] = t
		}
		S.Assume(And(app(SBool, ">", c, IntLit(0)), app(SBool, "<", c, fc.heapGet(st, nextVar))), "captured variable")
	}
	fc.entry = st
	fc.guardSeen = map[string]bool{}
	fc.freshRefs = map[string]bool{}
	fc.assumeEntryLocks(st)
	e.refinesAxioms(fc)
	for _, ax := range e.CS.Axioms {
		e.needAxioms(fc, ax.PkgPath)
	}
	env := fc.specEnv(st)
	env.Old = st
	for _, cl := range ct.Requires {
		t := fc.evalClause(env, cl)
		S.Assume(t, "requires "+cl.Label)
		if strings.HasPrefix(cl.Label, "env-") {
			res.Notes.Assumed["environment assumption of "+ct.Key+" ["+cl.Label+"]: "+cl.Src] = true
		}
	}
	if ik := ct.Opts["implements"]; ik != "" {
		// the preconditions of the interface method are established at every invoke site
		// (call.requires obligations there), so the implementation may rely on them
		ict := e.CS.ByKey[ct.PkgPath+"."+ik]
		if ict == nil {
			ict = e.CS.ByKey[ik]
		}
		if ict != nil {
			ienv := *env
			ienv.PkgPath = ict.PkgPath
			ienv.Vars = map[string]TVal{}
			ienv.Macros = map[string]SExpr{}
			for _, l := range ict.Lets {
				ienv.Macros[l.Name] = l.Expr
			}
			for i, p := range fn.Params {
				if i == 0 {
					ienv.Vars["self"] = TVal{T: fc.TE.Box(p.Type(), fc.vals[p].T)}
					continue
				}
				ienv.Vars[p.Name()] = TVal{T: fc.vals[p].T, Ty: p.Type()}
			}
			if isig := e.ifaceSig(ct.PkgPath, ik); isig != nil {
				for i := 0; i < isig.Params().Len() && i+1 < len(fn.Params); i++ {
					p := fn.Params[i+1]
					ienv.Vars[isig.Params().At(i).Name()] = TVal{T: fc.vals[p].T, Ty: p.Type()}
				}
			}
			for _, cl := range ict.Requires {
				t := fc.evalClause(&ienv, cl)
				S.Assume(t, "requires "+cl.Label+" of "+ik+" (checked at the invoke sites)")
			}
		}
	}
	o := fc.oblige(st, "canary", "requires", "", TFalse, "the preconditions are satisfiable")
	o.Canary = true

	exit, results := fc.run(st)
	if exit == nil {
		return
	}
	penv := fc.specEnv(exit)
	penv.Old = st
	for i, r := range results {
		var ty types.Type
		if i < fn.Signature.Results().Len() {
			ty = fn.Signature.Results().At(i).Type()
			if n := fn.Signature.Results().At(i).Name(); n != "" {
				penv.Vars[n] = TVal{T: r.T, Ty: ty}
			}
		}
		penv.Results = append(penv.Results, TVal{T: r.T, Ty: ty, P: r.P})
	}
	// ghost assignments: the ghost variable takes the value of the expression (evaluated at exit)
	fc.applyGhostSets(ct, penv, exit)
	for _, cl := range ct.Ensures {
		if strings.HasPrefix(cl.Label, "env-") {
			// a fact about the environment that callers may use but the code cannot establish
			// (e.g. a process holds at most 2^32 sessions): assumed, listed in the evidence
			res.Notes.Assumed["environment assumption of "+ct.Key+" ["+cl.Label+"]: "+cl.Src] = true
			continue
		}
		parts := fc.evalClauseParts(penv, cl)
		for i, t := range parts {
			lab := cl.Label
			if len(parts) > 1 {
				lab = fmt.Sprintf("%s/%d", cl.Label, i+1)
			}
			ob := fc.oblige(exit, "ensures", lab, "", t, cl.Src)
			ob.Known = cl.Known
			if cl.Known == "" {
				// assert-then-assume: later clauses may rely on the ones before them
				S.Assume(Implies(exit.PC, t), "ensures "+lab+" (obligation above)")
			}
		}
	}
	// refinement: the function also satisfies the postconditions of the interface method it implements
	if ik := ct.Opts["implements"]; ik != "" {
		ict := e.CS.ByKey[ct.PkgPath+"."+ik]
		if ict == nil {
			ict = e.CS.ByKey[ik]
		}
		if ict == nil {
			panic(unsupported{"implements: no interface contract " + ik})
		}
		ienv := *penv
		ienv.Vars = map[string]TVal{}
		for k, v := range penv.Vars {
			ienv.Vars[k] = v
		}
		ienv.Macros = map[string]SExpr{}
		for _, l := range ict.Lets {
			ienv.Macros[l.Name] = l.Expr
		}
		// interface parameter names, by position (receiver excluded)
		if obj, _, _ := types.LookupFieldOrMethod(fn.Signature.Recv().Type(), true, fn.Pkg.Pkg, fn.Name()); obj != nil {
			_ = obj
		}
		isig := e.ifaceSig(ct.PkgPath, ik)
		if isig != nil {
			for i := 0; i < isig.Params().Len() && i+1 < len(fn.Params); i++ {
				p := fn.Params[i+1]
				ienv.Vars[isig.Params().At(i).Name()] = TVal{T: fc.vals[p].T, Ty: p.Type()}
			}
		}
		ienv.Vars["self"] = TVal{T: fc.TE.Box(fn.Params[0].Type(), fc.vals[fn.Params[0]].T)}
		for _, cl := range ict.Ensures {
			if strings.HasPrefix(cl.Label, "env-") {
				continue
			}
			t := fc.evalClause(&ienv, cl)
			fc.oblige(exit, "ensures", "implements "+ik+"."+cl.Label, "", t, cl.Src)
		}
	}
	// frame obligations
	if len(ct.Modifies) > 0 || len(ct.ModAll) > 0 || ct.hasFrame() {
		ws := e.fnWrites(fc, fn, 0)
		locs, whole := fc.modLocs(st, env, ct)
		for _, n := range sortedHeapNames(ws) {
			hv := ws[n]
			if whole[n] || hv.Kind == HGhost || hv.Kind == HGlobal {
				continue
			}
			f := fc.frameFormula(st, exit, hv, locs[n])
			if f.S == "true" {
				continue
			}
			fc.oblige(exit, "frame", n, "", f, "only the locations in the modifies clause change in "+n)
		}
	}
	return
}

func (e *Engine) verifyLemma(ct *Contract, res *FnResult, te *TypeEnv, S *Script) {
	fc := &FnCtx{E: e, C: ct, S: S, TE: te, vals: map[ssa.Value]Val{}, initHeap: map[string]Term{}, notes: res.Notes, params: map[string]Val{}, paramTy: map[string]types.Type{}, held: map[string]bool{}}
	fc.top = fc
	fc.Fn = e.anyFnOf(ct.PkgPath)
	st := &State{PC: TTrue, Heap: map[string]Term{}}
	fc.entry = st
	env := &SpecEnv{FC: fc, Cur: st, Old: st, Named: map[string]*State{}, Vars: map[string]TVal{}, Macros: map[string]SExpr{}, PkgPath: ct.PkgPath}
	n := 0
	env.nbound = &n
	for _, l := range ct.Lets {
		env.Macros[l.Name] = l.Expr
	}
	func() {
		defer func() {
			if r := recover(); r != nil {
				if se, ok := r.(specErr); ok {
					panic(unsupported{"lemma " + ct.Key + ": " + se.msg})
				}
				panic(r)
			}
		}()
		for _, p := range ct.Params {
			t, k := env.resolveType(p.Type)
			c := S.Fresh(p.Name, env.sortOfKind(t, k))
			env.Vars[p.Name] = TVal{T: c, Ty: t, Kind: k}
			if k == KGo {
				if g := fc.wfBinder(c, t); g.S != "true" {
					S.Assume(g, "range of "+p.Name)
				}
			}
		}
	}()
	S.LemmaSeq = ct.Seq
	for _, ax := range e.CS.Axioms {
		e.needAxioms(fc, ax.PkgPath)
	}
	e.needAxioms(fc, ct.PkgPath)
	if iv := ct.Opts["induction"]; iv != "" {
		// strong induction on a natural-number parameter: the statement is assumed for all smaller values
		ih := e.lemmaFormula(fc, ct, iv, env.Vars[iv].T)
		S.Assume(ih, "induction hypothesis on "+iv)
	}
	for _, cl := range ct.Requires {
		S.Assume(fc.evalClause(env, cl), "requires "+cl.Label)
	}
	o := &Obligation{Name: res.FullName + "#canary[requires]", Func: res.FullName, Kind: "canary", Label: "requires", Goal: TFalse, Canary: true, Serves: ct.Serves, Clause: "the hypotheses are satisfiable"}
	S.Oblige(o)
	for _, cl := range ct.Ensures {
		t := fc.evalClause(env, cl)
		ob := &Obligation{Name: fmt.Sprintf("%s#ensures[%s]", res.FullName, cl.Label), Func: res.FullName, Kind: "ensures", Label: cl.Label, Goal: t, Serves: ct.Serves, Clause: cl.Src, Known: cl.Known}
		S.Oblige(ob)
		if cl.Known == "" {
			S.Assume(t, "ensures "+cl.Label+" (obligation above)")
		}
	}
}

// applyGhostSets: "ghost-set g = e" defines the value of ghost variable g when
// the function returns. Only a ghost may be assigned, so a ghost-set can never
// constrain program state.
func (fc *FnCtx) applyGhostSets(ct *Contract, env *SpecEnv, st *State) {
	var vals []Term
	var hvs []HeapVar
	for _, ga := range ct.GhostSet {
		g := fc.E.ghost(ct.PkgPath, ga.Name)
		if g == nil {
			panic(unsupported{"ghost-set: " + ga.Name + " is not a ghost variable"})
		}
		var t TVal
		func() {
			defer func() {
				if r := recover(); r != nil {
					if se, ok := r.(specErr); ok {
						panic(unsupported{"ghost-set " + ga.Name + ": " + se.msg})
					}
					panic(r)
				}
			}()
			t = env.eval(ga.Expr)
		}()
		genv := *env
		genv.PkgPath = g.PkgPath
		gt, kind := genv.resolveType(g.Type)
		hvs = append(hvs, HeapVar{"$g." + ga.Name, env.sortOfKind(gt, kind), HGhost})
		vals = append(vals, t.T)
	}
	for i, hv := range hvs {
		st.Heap[hv.Name] = fc.S.Name(hv.Name, vals[i])
	}
}

// lemmaFormula: forall params :: requires ==> ensures, as an SMT term. With
// indVar set, restricted to 0 <= indVar' < bound (the induction hypothesis).
func (e *Engine) lemmaFormula(fc *FnCtx, ct *Contract, indVar string, bound Term) Term {
	st := &State{PC: TTrue, Heap: map[string]Term{}}
	env := &SpecEnv{FC: fc, Cur: st, Old: st, Named: map[string]*State{}, Vars: map[string]TVal{}, Macros: map[string]SExpr{}, PkgPath: ct.PkgPath}
	n := 0
	env.nbound = &n
	for _, l := range ct.Lets {
		env.Macros[l.Name] = l.Expr
	}
	var binders []string
	var guards []Term
	var t Term
	func() {
		defer func() {
			if r := recover(); r != nil {
				if se, ok := r.(specErr); ok {
					panic(unsupported{"lemma " + ct.Key + ": " + se.msg})
				}
				panic(r)
			}
		}()
		for _, p := range ct.Params {
			pt, k := env.resolveType(p.Type)
			name := p.Name + "!l"
			srt := env.sortOfKind(pt, k)
			binders = append(binders, fmt.Sprintf("(%s %s)", name, srt))
			bv := Term{name, srt}
			env.Vars[p.Name] = TVal{T: bv, Ty: pt, Kind: k}
			if k == KGo {
				if g := fc.wfBinder(bv, pt); g.S != "true" {
					guards = append(guards, g)
				}
			}
			if p.Name == indVar {
				guards = append(guards, app(SBool, "<=", fc.TE.IntLit(0), bv), app(SBool, "<", bv, bound))
			}
		}
		var req, ens []Term
		for _, cl := range ct.Requires {
			req = append(req, env.boolT(cl.Expr))
		}
		for _, cl := range ct.Ensures {
			if strings.HasPrefix(cl.Label, "hint-") {
				// an intermediate step of the lemma's own proof: proved, used by the clauses after
				// it, not part of the exported statement (keeps its terms out of trigger matching)
				continue
			}
			ens = append(ens, env.boolT(cl.Expr))
		}
		body := Implies(And(append(guards, req...)...), And(ens...))
		pat := ""
		if tr := ct.Opts["trigger"]; tr != "" {
			var ps []string
			for _, part := range splitTop(tr, ';') {
				var ts []string
				for _, one := range splitTop(part, ',') {
					ex, err := parseSpecExpr(one)
					if err != nil {
						panic(unsupported{"lemma " + ct.Key + " trigger: " + err.Error()})
					}
					ts = append(ts, env.eval(ex).T.S)
				}
				ps = append(ps, ":pattern ("+strings.Join(ts, " ")+")")
			}
			pat = strings.Join(ps, " ")
		}
		if pat != "" {
			t = Term{fmt.Sprintf("(forall (%s) (! %s %s))", strings.Join(binders, " "), body.S, pat), SBool}
		} else {
			t = Term{fmt.Sprintf("(forall (%s) %s)", strings.Join(binders, " "), body.S), SBool}
		}
	}()
	return t
}

// ifaceSig: the signature of interface method "(I).M" declared in package pkgPath.
func (e *Engine) ifaceSig(pkgPath, key string) *types.Signature {
	if j := strings.Index(key, ".("); j > 0 {
		// full key: <package path>.(I).M
		pkgPath, key = key[:j], key[j+1:]
	}
	if !strings.HasPrefix(key, "(") {
		return nil
	}
	i := strings.Index(key, ").")
	if i < 0 {
		return nil
	}
	iname, mname := key[1:i], key[i+2:]
	p := e.P.ByPath[pkgPath]
	if p == nil {
		return nil
	}
	obj := p.Types.Scope().Lookup(iname)
	if obj == nil {
		return nil
	}
	m, _, _ := types.LookupFieldOrMethod(obj.Type(), true, p.Types, mname)
	if f, ok := m.(*types.Func); ok {
		return f.Type().(*types.Signature)
	}
	return nil
}

func (e *Engine) anyFnOf(pkgPath string) *ssa.Function {
	var keys []string
	for k := range e.fnByKey {
		keys = append(keys, k)
	}
	sort.Strings(keys)
	for _, k := range keys {
		if strings.HasPrefix(k, pkgPath+".") && fnPkgPath(e.fnByKey[k]) == pkgPath {
			return e.fnByKey[k]
		}
	}
	return nil
}
