package main

import (
	"fmt"
	"go/token"
	"go/types"
	"strings"

	"golang.org/x/tools/go/ssa"
)

const tokenLSS = token.LSS

var nowVar = HeapVar{"$now", SInt, HGhost}

// libSpecWrites: heap variables written by library functions that have a
// specification here (nil = not a specified library function).
func libSpecWrites(fc *FnCtx, callee *ssa.Function, c *ssa.CallCommon) []HeapVar {
	name := fullName(callee)
	switch name {
	case "time.Now":
		return []HeapVar{nowVar}
	case "sort.Slice":
		if mi, ok := c.Args[0].(*ssa.MakeInterface); ok {
			if sl, ok := mi.X.Type().Underlying().(*types.Slice); ok {
				return []HeapVar{fc.TE.ElemHeap(sl.Elem())}
			}
		}
		return []HeapVar{}
	}
	if _, ok := libPure[name]; ok {
		return []HeapVar{}
	}
	if strings.HasPrefix(name, "sync.(*Mutex).") || strings.HasPrefix(name, "sync.(*RWMutex).") {
		return []HeapVar{}
	}
	return nil
}

// libPure: library functions without effects on the modelled heap.
var libPure = map[string]bool{
	"time.Time.Add": true, "time.Time.After": true, "time.Time.Before": true, "time.Time.IsZero": true, "time.Time.Sub": true, "time.Time.Equal": true,
	"time.Duration.Nanoseconds": true, "time.Duration.Milliseconds": true, "time.Duration.Seconds": true, "time.Since": true,
	"strconv.Itoa": true, "strconv.Atoi": true, "strconv.FormatUint": true, "strconv.ParseUint": true, "strconv.FormatBool": true,
	"strings.HasPrefix": true, "strings.CutPrefix": true, "strings.Contains": true, "strings.Split": true, "strings.TrimPrefix": true,
	"errors.Is": true, "errors.New": true, "errors.As": true, "fmt.Errorf": true, "fmt.Sprintf": true,
	"math.Ceil": true, "math.Floor": true,
}

func (fc *FnCtx) libCall(st *State, name string, callee *ssa.Function, c *ssa.CallCommon, args []Val, in ssa.Instruction, site string, resTypes []types.Type) (Val, bool) {
	te := fc.TE
	E := fc.E
	switch name {
	case "sync.(*Mutex).Lock", "sync.(*RWMutex).Lock":
		fc.lockOp(st, "Lock", args[0], site)
		return Val{}, true
	case "sync.(*Mutex).Unlock", "sync.(*RWMutex).Unlock":
		fc.lockOp(st, "Unlock", args[0], site)
		return Val{}, true
	case "sync.(*RWMutex).RLock":
		fc.lockOp(st, "RLock", args[0], site)
		return Val{}, true
	case "sync.(*RWMutex).RUnlock":
		fc.lockOp(st, "RUnlock", args[0], site)
		return Val{}, true
	case "time.Now":
		old := fc.heapGet(st, nowVar)
		n := fc.S.Fresh("now", SInt)
		fc.S.Assume(And(app(SBool, ">", n, IntLit(0)), app(SBool, ">=", n, old)), "time.Now is non-zero and monotone")
		st.Heap[nowVar.Name] = n
		return tv(n), true
	case "time.Time.Add":
		return tv(app(SInt, "+", args[0].T, args[1].T)), true
	case "time.Time.Sub":
		return tv(app(SInt, "-", args[0].T, args[1].T)), true
	case "time.Time.After":
		return tv(app(SBool, ">", args[0].T, args[1].T)), true
	case "time.Time.Before":
		return tv(app(SBool, "<", args[0].T, args[1].T)), true
	case "time.Time.Equal":
		return tv(Eq(args[0].T, args[1].T)), true
	case "time.Time.IsZero":
		return tv(Eq(args[0].T, IntLit(0))), true
	case "time.Duration.Nanoseconds":
		return tv(args[0].T), true
	case "time.Duration.Milliseconds":
		if te.BV {
			return tv(app(SBV64, "bvsdiv", args[0].T, te.IntLit(1000000))), true
		}
		return tv(goDiv(args[0].T, IntLit(1000000))), true
	case "strconv.Itoa":
		t, _ := E.strFn(te, "itoa", []Term{args[0].T})
		return tv(t), true
	case "strconv.Atoi":
		E.strFn(te, "itoa", []Term{IntLit(0)})
		v, _ := E.strFn(te, "atoi", []Term{args[0].T})
		ok, _ := E.strFn(te, "atoiOk", []Term{args[0].T})
		err := fc.S.Fresh("atoi.err", SIfc)
		fc.S.Assume(Eq(Eq(err, Term{"ifc_nil", SIfc}), ok), "Atoi fails exactly on non-numbers")
		return Val{Tup: []Val{tv(Ite(ok, v, IntLit(0))), tv(err)}}, true
	case "strconv.FormatUint":
		t, _ := E.strFn(te, "formatUint", []Term{args[0].T})
		return tv(t), true
	case "strconv.ParseUint":
		E.strFn(te, "formatUint", []Term{IntLit(0)})
		v, _ := E.strFn(te, "parseUint", []Term{args[0].T})
		ok, _ := E.strFn(te, "parseUintOk", []Term{args[0].T})
		err := fc.S.Fresh("parseUint.err", SIfc)
		fc.S.Assume(Eq(Eq(err, Term{"ifc_nil", SIfc}), ok), "ParseUint fails exactly on non-numbers")
		return Val{Tup: []Val{tv(Ite(ok, v, IntLit(0))), tv(err)}}, true
	case "strconv.FormatBool":
		return tv(Ite(args[0].T, te.G.StrLit("true"), te.G.StrLit("false"))), true
	case "strings.HasPrefix":
		t, _ := E.strFn(te, "hasPrefix", []Term{args[0].T, args[1].T})
		return tv(t), true
	case "strings.CutPrefix":
		has, _ := E.strFn(te, "hasPrefix", []Term{args[0].T, args[1].T})
		cut, _ := E.strFn(te, "cutPrefix", []Term{args[0].T, args[1].T})
		return Val{Tup: []Val{tv(Ite(has, cut, args[0].T)), tv(has)}}, true
	case "errors.Is":
		return tv(E.errIs(te, args[0].T, args[1].T)), true
	case "errors.New", "fmt.Errorf":
		e := fc.S.Fresh("err", SIfc)
		fc.S.Assume(Not(Eq(e, Term{"ifc_nil", SIfc})), "constructed error is not nil")
		if name == "fmt.Errorf" {
			// %w wrapping: the new error "is" whatever an argument error is
			fc.notes.Assumed["fmt.Errorf results are opaque non-nil errors (wrapping not modelled)"] = true
		}
		return tv(e), true
	case "fmt.Sprintf":
		return tv(fc.S.Fresh("sprintf", SStr)), true
	case "math.Ceil":
		return tv(te.FOp("ceil", args[0].T)), true
	case "math.Floor":
		return tv(te.FOp("floor", args[0].T)), true
	case "sort.Slice":
		return fc.sortSlice(st, c, args, in, site), true
	}
	return Val{}, false
}

// sortSlice: sort.Slice(s, less) permutes the elements of s in place so that
// for no i<j, less(j, i) holds. The closure is evaluated symbolically on the
// post-state for bound indices.
func (fc *FnCtx) sortSlice(st *State, c *ssa.CallCommon, args []Val, in ssa.Instruction, site string) Val {
	mi, ok := c.Args[0].(*ssa.MakeInterface)
	if !ok {
		fc.unsup("sort.Slice on a non-literal interface")
	}
	sl, ok := mi.X.Type().Underlying().(*types.Slice)
	if !ok {
		fc.unsup("sort.Slice on non-slice")
	}
	s := fc.term(mi.X)
	less := args[1].Fn
	if less == nil {
		less = fc.E.closures[args[1].T.S]
	}
	if less == nil {
		fc.unsup("sort.Slice with an unknown less function")
	}
	hv := fc.TE.ElemHeap(sl.Elem())
	E := fc.heapGet(st, hv)
	arr, off, ln := app(SInt, "sl_arr", s), app(SInt, "sl_off", s), app(SInt, "sl_len", s)
	oldD := fc.S.Define("sort.old", Select(E, arr))
	newD := fc.S.Fresh("sort.new", oldD.Sort)
	fc.S.nfresh++
	perm := fmt.Sprintf("sort.perm!%d", fc.S.nfresh)
	inv := fmt.Sprintf("sort.inv!%d", fc.S.nfresh)
	fc.S.Lines = append(fc.S.Lines, Line{LDecl, fmt.Sprintf("(declare-fun %s (Int) Int)", perm), ""}, Line{LDecl, fmt.Sprintf("(declare-fun %s (Int) Int)", inv), ""})
	rng := func(v string) string { return fmt.Sprintf("(and (<= 0 %s) (< %s %s))", v, v, ln.S) }
	ip := Term{"i!p", SInt}
	atNew := fc.TE.At(newD, off, ip)
	atOld := fc.TE.At(oldD, off, ip)
	atOldPerm := fc.TE.At(oldD, off, app(SInt, perm, ip))
	atNewInv := fc.TE.At(newD, off, app(SInt, inv, ip))
	// forward: every element of the result is an element of the input (triggered by reading the result)
	fc.S.Assume(Implies(st.PC, Term{fmt.Sprintf("(forall ((i!p Int)) (! (=> %s (and %s (= %s %s) (= (%s (%s i!p)) i!p))) :pattern (%s) :pattern ((%s i!p))))",
		rng("i!p"), rng("("+perm+" i!p)"), atNew.S, atOldPerm.S, inv, perm, atNew.S, perm), SBool}), "sort.Slice: result is a permutation (forward map)")
	// backward: every element of the input is an element of the result (triggered by reading the input)
	fc.S.Assume(Implies(st.PC, Term{fmt.Sprintf("(forall ((i!p Int)) (! (=> %s (and %s (= %s %s) (= (%s (%s i!p)) i!p))) :pattern (%s) :pattern ((%s i!p))))",
		rng("i!p"), rng("("+inv+" i!p)"), atNewInv.S, atOld.S, perm, inv, atOld.S, inv), SBool}), "sort.Slice: result is a permutation (inverse map)")
	fc.S.Assume(Implies(st.PC, Term{fmt.Sprintf("(forall ((j!p Int)) (! (=> (or (< j!p %s) (>= j!p (+ %s %s))) (= (select %s j!p) (select %s j!p))) :pattern ((select %s j!p))))",
		off.S, off.S, ln.S, newD.S, oldD.S, newD.S), SBool}), "sort.Slice: elements outside the slice are untouched")
	// an empty slice is not written at all
	fc.heapSet(st, hv, Ite(app(SBool, "<=", ln, IntLit(0)), E, Store(E, arr, newD)))
	// sortedness: evaluate less(j, i) on the post state in quiet mode
	sub := &FnCtx{E: fc.E, Fn: less.Fn, S: fc.S, TE: fc.TE, vals: map[ssa.Value]Val{}, top: fc.top, depth: fc.depth + 1, notes: fc.notes, site: site + ">less", held: fc.held}
	for i, b := range less.Fn.FreeVars {
		if i < len(less.Bindings) {
			sub.vals[b] = less.Bindings[i]
		}
	}
	sub.vals[less.Fn.Params[0]] = tv(Term{"j!s", fc.TE.intSort()})
	sub.vals[less.Fn.Params[1]] = tv(Term{"i!s", fc.TE.intSort()})
	quiet := fc.S.Quiet
	fc.S.Quiet = true
	qst := st.clone()
	qst.PC = TTrue
	exit, res := sub.run(qst)
	fc.S.Quiet = quiet
	if exit == nil || len(res) != 1 {
		fc.unsup("less function of sort.Slice does not return")
	}
	fc.S.Assume(Implies(st.PC, Term{fmt.Sprintf("(forall ((i!s Int) (j!s Int)) (=> (and (<= 0 i!s) (< i!s j!s) (< j!s %s)) (not %s)))", ln.S, res[0].T.S), SBool}), "sort.Slice: sorted with respect to less")
	fc.notes.Assumed["sort.Slice: permutation in place, sorted w.r.t. the less closure evaluated symbolically; index safety inside less assumed (called with valid indices)"] = true
	return Val{}
}
