package main

import (
	"fmt"
	"go/token"
	"go/types"
	"strings"

	"golang.org/x/tools/go/ssa"
)

const tokenLSS = token.LSS

var nowVar = HeapVar{"$now", SInt, HGhost}

// libSpecWrites: heap variables written by library functions that have a
// specification here (nil = not a specified library function).
func libSpecWrites(fc *FnCtx, callee *ssa.Function, c *ssa.CallCommon) []HeapVar {
	name := fullName(callee)
	switch name {
	case "time.Now":
		return []HeapVar{nowVar}
	case "sort.Slice":
		if mi, ok := c.Args[0].(*ssa.MakeInterface); ok {
			if sl, ok := mi.X.Type().Underlying().(*types.Slice); ok {
				return []HeapVar{fc.TE.ElemHeap(sl.Elem())}
			}
		}
		return []HeapVar{}
	}
	if _, ok := libPure[name]; ok {
		return []HeapVar{}
	}
	if ws := bufWrites(name); ws != nil {
		return ws
	}
	if strings.HasPrefix(name, "sync.(*Mutex).") || strings.HasPrefix(name, "sync.(*RWMutex).") {
		return []HeapVar{}
	}
	return nil
}

// libPure: library functions without effects on the modelled heap.
var libPure = map[string]bool{
	"time.Time.Add": true, "time.Time.After": true, "time.Time.Before": true, "time.Time.IsZero": true, "time.Time.Sub": true, "time.Time.Equal": true,
	"time.Duration.Nanoseconds": true, "time.Duration.Milliseconds": true, "time.Duration.Seconds": true, "time.Since": true,
	"strconv.Itoa": true, "strconv.Atoi": true, "strconv.FormatUint": true, "strconv.ParseUint": true, "strconv.FormatBool": true,
	"strings.HasPrefix": true, "strings.CutPrefix": true, "strings.Contains": true, "strings.Split": true, "strings.TrimPrefix": true,
	"errors.Is": true, "errors.New": true, "errors.As": true, "fmt.Errorf": true, "fmt.Sprintf": true,
	"math.Ceil": true, "math.Floor": true,
}

func (fc *FnCtx) libCall(st *State, name string, callee *ssa.Function, c *ssa.CallCommon, args []Val, in ssa.Instruction, site string, resTypes []types.Type) (Val, bool) {
	te := fc.TE
	E := fc.E
	switch name {
	case "sync.(*Mutex).Lock", "sync.(*RWMutex).Lock":
		fc.lockOp(st, "Lock", args[0], site)
		return Val{}, true
	case "sync.(*Mutex).Unlock", "sync.(*RWMutex).Unlock":
		fc.lockOp(st, "Unlock", args[0], site)
		return Val{}, true
	case "sync.(*RWMutex).RLock":
		fc.lockOp(st, "RLock", args[0], site)
		return Val{}, true
	case "sync.(*RWMutex).RUnlock":
		fc.lockOp(st, "RUnlock", args[0], site)
		return Val{}, true
	case "time.Now":
		old := fc.heapGet(st, nowVar)
		n := fc.S.Fresh("now", SInt)
		fc.S.Assume(And(app(SBool, ">", n, IntLit(0)), app(SBool, ">=", n, old)), "time.Now is non-zero and monotone")
		st.Heap[nowVar.Name] = n
		return tv(n), true
	case "time.Time.Add":
		return tv(app(SInt, "+", args[0].T, args[1].T)), true
	case "time.Time.Sub":
		return tv(app(SInt, "-", args[0].T, args[1].T)), true
	case "time.Time.After":
		return tv(app(SBool, ">", args[0].T, args[1].T)), true
	case "time.Time.Before":
		return tv(app(SBool, "<", args[0].T, args[1].T)), true
	case "time.Time.Equal":
		return tv(Eq(args[0].T, args[1].T)), true
	case "time.Time.IsZero":
		return tv(Eq(args[0].T, IntLit(0))), true
	case "time.Duration.Nanoseconds":
		return tv(args[0].T), true
	case "time.Duration.Milliseconds":
		if te.BV {
			return tv(app(SBV64, "bvsdiv", args[0].T, te.IntLit(1000000))), true
		}
		return tv(goDiv(args[0].T, IntLit(1000000))), true
	case "strconv.Itoa":
		t, _ := E.strFn(te, "itoa", []Term{args[0].T})
		return tv(t), true
	case "strconv.Atoi":
		E.strFn(te, "itoa", []Term{IntLit(0)})
		v, _ := E.strFn(te, "atoi", []Term{args[0].T})
		ok, _ := E.strFn(te, "atoiOk", []Term{args[0].T})
		err := fc.S.Fresh("atoi.err", SIfc)
		fc.S.Assume(Eq(Eq(err, Term{"ifc_nil", SIfc}), ok), "Atoi fails exactly on non-numbers")
		return Val{Tup: []Val{tv(Ite(ok, v, IntLit(0))), tv(err)}}, true
	case "strconv.FormatUint":
		t, _ := E.strFn(te, "formatUint", []Term{args[0].T})
		return tv(t), true
	case "strconv.ParseUint":
		E.strFn(te, "formatUint", []Term{IntLit(0)})
		v, _ := E.strFn(te, "parseUint", []Term{args[0].T})
		ok, _ := E.strFn(te, "parseUintOk", []Term{args[0].T})
		err := fc.S.Fresh("parseUint.err", SIfc)
		fc.S.Assume(Eq(Eq(err, Term{"ifc_nil", SIfc}), ok), "ParseUint fails exactly on non-numbers")
		return Val{Tup: []Val{tv(Ite(ok, v, IntLit(0))), tv(err)}}, true
	case "strconv.FormatBool":
		return tv(Ite(args[0].T, te.G.StrLit("true"), te.G.StrLit("false"))), true
	case "strings.HasPrefix":
		t, _ := E.strFn(te, "hasPrefix", []Term{args[0].T, args[1].T})
		return tv(t), true
	case "strings.CutPrefix":
		has, _ := E.strFn(te, "hasPrefix", []Term{args[0].T, args[1].T})
		cut, _ := E.strFn(te, "cutPrefix", []Term{args[0].T, args[1].T})
		return Val{Tup: []Val{tv(Ite(has, cut, args[0].T)), tv(has)}}, true
	case "errors.Is":
		return tv(E.errIs(te, args[0].T, args[1].T)), true
	case "errors.New", "fmt.Errorf":
		e := fc.S.Fresh("err", SIfc)
		fc.S.Assume(Not(Eq(e, Term{"ifc_nil", SIfc})), "constructed error is not nil")
		if name == "fmt.Errorf" {
			// %w wrapping: the new error "is" whatever an argument error is
			fc.notes.Assumed["fmt.Errorf results are opaque non-nil errors (wrapping not modelled)"] = true
		}
		return tv(e), true
	case "fmt.Sprintf":
		return tv(fc.S.Fresh("sprintf", SStr)), true
	case "math.Ceil":
		return tv(te.FOp("ceil", args[0].T)), true
	case "math.Floor":
		return tv(te.FOp("floor", args[0].T)), true
	case "sort.Slice":
		return fc.sortSlice(st, c, args, in, site), true
	}
	if v, ok := fc.bufCall(st, name, args, resTypes); ok {
		return v, true
	}
	return Val{}, false
}

// ---------------------------------------------------------------------------
// bytes.Buffer and the msgpack encoder writing to it (C13).
//
// Ghost model (one buffer per function, checked): bufLen = bytes written,
// bufItems = number of values encoded so far, bufEnd[j] = buffer length after
// the j-th value (bufEnd[0] = length when the encoder was created).
// Assumed of the codec: a successful Encode appends at least one byte and
// nothing else touches the buffer.

var (
	bufLenVar   = HeapVar{"$g.wrLen", SInt, HGhost}
	bufItemsVar = HeapVar{"$g.wrItems", SInt, HGhost}
	bufEndVar   = HeapVar{"$g.wrEnd", ArraySort(SInt, SInt), HGhost}
)

var bufFuncs = map[string]bool{
	"bytes.(*Buffer).WriteByte": true, "bytes.(*Buffer).Len": true, "bytes.(*Buffer).Bytes": true,
	"github.com/ugorji/go/codec.NewEncoder": true, "github.com/ugorji/go/codec.(*Encoder).Encode": true,
	"github.com/ugorji/go/codec.NewDecoder": true,
}

// touchesBuffer: an unspecified function of package bytes or of the codec may
// change the buffer behind the ghost model.
func touchesBuffer(callee *ssa.Function) bool {
	if callee == nil {
		return false
	}
	pp := fnPkgPath(callee)
	return pp == "bytes" || pp == "github.com/ugorji/go/codec"
}

func bufWrites(name string) []HeapVar {
	switch name {
	case "bytes.(*Buffer).WriteByte":
		return []HeapVar{bufLenVar}
	case "bytes.(*Buffer).Len":
		return []HeapVar{}
	case "bytes.(*Buffer).Bytes":
		return []HeapVar{nextVar}
	case "github.com/ugorji/go/codec.NewDecoder":
		return []HeapVar{nextVar}
	case "github.com/ugorji/go/codec.NewEncoder":
		return []HeapVar{bufItemsVar, bufEndVar, nextVar}
	case "github.com/ugorji/go/codec.(*Encoder).Encode":
		return []HeapVar{bufLenVar, bufItemsVar, bufEndVar}
	}
	return nil
}

func (fc *FnCtx) bufCall(st *State, name string, args []Val, resTypes []types.Type) (Val, bool) {
	if !bufFuncs[name] {
		return Val{}, false
	}
	fc.notes.Assumed["bytes.Buffer/msgpack encoder ghost model: a successful Encode appends one self-delimiting item of at least one byte; one buffer per function"] = true
	ln := fc.heapGet(st, bufLenVar)
	switch name {
	case "bytes.(*Buffer).WriteByte":
		fc.heapSet(st, bufLenVar, app(SInt, "+", ln, IntLit(1)))
		return tv(Term{"ifc_nil", SIfc}), true
	case "bytes.(*Buffer).Len":
		return tv(fc.fromInt(ln)), true
	case "bytes.(*Buffer).Bytes":
		arr := fc.alloc(st)
		cp := fc.S.Fresh("bytes.cap", SInt)
		fc.S.Assume(Implies(st.PC, app(SBool, ">=", cp, ln)), "capacity of Bytes()")
		fc.TE.ensureSlice()
		return tv(fc.S.Define("bytes", app("Slice", "mk_slice", arr, IntLit(0), ln, cp))), true
	case "github.com/ugorji/go/codec.NewDecoder":
		return tv(fc.alloc(st)), true
	case "github.com/ugorji/go/codec.NewEncoder":
		fc.heapSet(st, bufItemsVar, IntLit(0))
		fc.heapSet(st, bufEndVar, Store(fc.heapGet(st, bufEndVar), IntLit(0), ln))
		r := fc.alloc(st)
		return tv(r), true
	case "github.com/ugorji/go/codec.(*Encoder).Encode":
		err := fc.S.Fresh("encode.err", SIfc)
		nl := fc.S.Fresh("encode.len", SInt)
		ok := Eq(err, Term{"ifc_nil", SIfc})
		fc.S.Assume(Implies(st.PC, And(app(SBool, ">=", nl, ln), Implies(ok, app(SBool, ">", nl, ln)))), "Encode appends at least one byte on success")
		items := fc.heapGet(st, bufItemsVar)
		ni := fc.S.Define("encode.items", Ite(ok, app(SInt, "+", items, IntLit(1)), items))
		fc.heapSet(st, bufLenVar, nl)
		fc.heapSet(st, bufEndVar, Ite(ok, Store(fc.heapGet(st, bufEndVar), ni, nl), fc.heapGet(st, bufEndVar)))
		fc.heapSet(st, bufItemsVar, ni)
		return tv(err), true
	}
	return Val{}, false
}

// sortSlice: sort.Slice(s, less) permutes the elements of s in place so that
// for no i<j, less(j, i) holds. The closure is evaluated symbolically on the
// post-state for bound indices.
func (fc *FnCtx) sortSlice(st *State, c *ssa.CallCommon, args []Val, in ssa.Instruction, site string) Val {
	mi, ok := c.Args[0].(*ssa.MakeInterface)
	if !ok {
		fc.unsup("sort.Slice on a non-literal interface")
	}
	sl, ok := mi.X.Type().Underlying().(*types.Slice)
	if !ok {
		fc.unsup("sort.Slice on non-slice")
	}
	s := fc.term(mi.X)
	less := args[1].Fn
	if less == nil {
		less = fc.E.closures[args[1].T.S]
	}
	if less == nil {
		fc.unsup("sort.Slice with an unknown less function")
	}
	hv := fc.TE.ElemHeap(sl.Elem())
	E := fc.heapGet(st, hv)
	arr, off, ln := app(SInt, "sl_arr", s), app(SInt, "sl_off", s), app(SInt, "sl_len", s)
	oldD := fc.S.Define("sort.old", Select(E, arr))
	newD := fc.S.Fresh("sort.new", oldD.Sort)
	fc.S.nfresh++
	perm := fmt.Sprintf("sort.perm!%d", fc.S.nfresh)
	inv := fmt.Sprintf("sort.inv!%d", fc.S.nfresh)
	fc.S.Lines = append(fc.S.Lines, Line{LDecl, fmt.Sprintf("(declare-fun %s (Int) Int)", perm), ""}, Line{LDecl, fmt.Sprintf("(declare-fun %s (Int) Int)", inv), ""})
	rng := func(v string) string { return fmt.Sprintf("(and (<= 0 %s) (< %s %s))", v, v, ln.S) }
	ip := Term{"i!p", SInt}
	atNew := fc.TE.At(newD, off, ip)
	atOld := fc.TE.At(oldD, off, ip)
	atOldPerm := fc.TE.At(oldD, off, app(SInt, perm, ip))
	atNewInv := fc.TE.At(newD, off, app(SInt, inv, ip))
	// forward: every element of the result is an element of the input (triggered by reading the result)
	// perm is a bijection of the integers that maps the index range onto itself (the identity
	// outside it); stated without a range guard so that inv(perm(i)) and i are one term class at
	// once (with the guard, an index whose range is not yet decided starts an endless chain of
	// instances perm(i), inv(perm(i)), perm(inv(perm(i))), ...)
	fc.S.Assume(Term{fmt.Sprintf("(forall ((i!p Int)) (! (and (= (%s (%s i!p)) i!p) (= %s %s)) :pattern ((%s i!p)) :qid sort.perm))",
		inv, perm, rng("i!p"), rng("("+perm+" i!p)"), perm), SBool}, "sort.Slice: perm is a bijection preserving the index range")
	fc.S.Assume(Term{fmt.Sprintf("(forall ((i!p Int)) (! (and (= (%s (%s i!p)) i!p) (= %s %s)) :pattern ((%s i!p)) :qid sort.inv))",
		perm, inv, rng("i!p"), rng("("+inv+" i!p)"), inv), SBool}, "sort.Slice: inv is its inverse")
	fc.S.Assume(Implies(st.PC, Term{fmt.Sprintf("(forall ((i!p Int)) (! (=> %s (= %s %s)) :pattern (%s) :qid sort.fwd))",
		rng("i!p"), atNew.S, atOldPerm.S, atNew.S), SBool}), "sort.Slice: result is a permutation (forward map)")
	// backward: every element of the input is an element of the result (triggered by reading the input)
	fc.S.Assume(Implies(st.PC, Term{fmt.Sprintf("(forall ((i!p Int)) (! (=> %s (= %s %s)) :pattern (%s) :qid sort.bwd))",
		rng("i!p"), atNewInv.S, atOld.S, atOld.S), SBool}), "sort.Slice: result is a permutation (inverse map)")
	fc.S.Assume(Implies(st.PC, Term{fmt.Sprintf("(forall ((j!p Int)) (! (=> (or (< j!p %s) (>= j!p (+ %s %s))) (= (select %s j!p) (select %s j!p))) :pattern ((select %s j!p))))",
		off.S, off.S, ln.S, newD.S, oldD.S, newD.S), SBool}), "sort.Slice: elements outside the slice are untouched")
	// an empty slice is not written at all
	fc.heapSet(st, hv, Ite(app(SBool, "<=", ln, IntLit(0)), E, Store(E, arr, newD)))
	// sortedness: evaluate less(j, i) on the post state in quiet mode
	sub := &FnCtx{E: fc.E, Fn: less.Fn, S: fc.S, TE: fc.TE, vals: map[ssa.Value]Val{}, top: fc.top, depth: fc.depth + 1, notes: fc.notes, site: site + ">less", held: fc.held}
	for i, b := range less.Fn.FreeVars {
		if i < len(less.Bindings) {
			sub.vals[b] = less.Bindings[i]
		}
	}
	sub.vals[less.Fn.Params[0]] = tv(Term{"j!s", fc.TE.intSort()})
	sub.vals[less.Fn.Params[1]] = tv(Term{"i!s", fc.TE.intSort()})
	quiet := fc.S.Quiet
	fc.S.Quiet = true
	qst := st.clone()
	qst.PC = TTrue
	exit, res := sub.run(qst)
	fc.S.Quiet = quiet
	if exit == nil || len(res) != 1 {
		fc.unsup("less function of sort.Slice does not return")
	}
	fc.S.Assume(Implies(st.PC, Term{fmt.Sprintf("(forall ((i!s Int) (j!s Int)) (=> (and (<= 0 i!s) (< i!s j!s) (< j!s %s)) (not %s)))", ln.S, res[0].T.S), SBool}), "sort.Slice: sorted with respect to less")
	// when a loop follows, its invariants carry what is needed of the order: the
	// assumption is dropped after the next loop head (never, if there is none)
	fc.top.scoped = append(fc.top.scoped, len(fc.S.Lines)-1)
	fc.notes.Assumed["sort.Slice: permutation in place, sorted w.r.t. the less closure evaluated symbolically; index safety inside less assumed (called with valid indices)"] = true
	return Val{}
}
