package main

import (
	"fmt"
	"go/constant"
	"go/token"
	"go/types"
	"sort"
	"strings"

	"golang.org/x/tools/go/ssa"
)

// ---------------------------------------------------------------------------
// Values

type RootKind int

const (
	RField RootKind = iota // field i of heap struct object Ref
	RCell                  // cell of type Elem at Ref
	RElem                  // element Idx of backing array Ref, elements of type Elem
	RGlobal
)

type PathStep struct {
	St    types.Type // struct type
	Field int
}

type Ptr struct {
	Root  RootKind
	Ref   Term
	Off   Term // RElem: offset of the slice view in the backing array
	Idx   Term // RElem: index relative to Off
	St    types.Type // RField: struct type
	Field int
	Elem  types.Type // type of the content of the root location
	Path  []PathStep
	Glob  *ssa.Global
}

type FnVal struct {
	Fn       *ssa.Function
	Bindings []Val
	Recv     *Val // bound method receiver
}

type Val struct {
	T   Term
	P   *Ptr
	Tup []Val
	Fn  *FnVal
}

func tv(t Term) Val { return Val{T: t} }

// ---------------------------------------------------------------------------
// State

type State struct {
	PC   Term
	Heap map[string]Term
}

func (s *State) clone() *State {
	n := &State{PC: s.PC, Heap: make(map[string]Term, len(s.Heap))}
	for k, v := range s.Heap {
		n.Heap[k] = v
	}
	return n
}

type deferRec struct {
	instr *ssa.Defer
	guard Term
	vals  map[ssa.Value]Val
	fc    *FnCtx
}

type loopInfo struct {
	Header   *ssa.BasicBlock
	Ordinal  int
	Blocks   map[*ssa.BasicBlock]bool
	BackFrom []*ssa.BasicBlock
	Spec     *LoopSpec
	Entry    *State // state at loop entry (before havoc)
	RangeIt  ssa.Value
	autoDone bool
	EntryPhis map[ssa.Value]Val
}

// FnCtx is the symbolic execution of one function body (top-level or inlined).
type FnCtx struct {
	E        *Engine
	Fn       *ssa.Function
	C        *Contract
	S        *Script
	TE       *TypeEnv
	vals     map[ssa.Value]Val
	out      map[*ssa.BasicBlock]*State
	edge     map[[2]*ssa.BasicBlock]Term
	loops    map[*ssa.BasicBlock]*loopInfo
	order    []*ssa.BasicBlock
	backEdge map[[2]*ssa.BasicBlock]bool
	initHeap map[string]Term // shared with the top-level context
	top      *FnCtx
	depth    int
	defers   []deferRec
	rets     []retRec
	entry    *State
	atLock   *State
	held     map[string]bool
	notes    *RunNotes
	params   map[string]Val
	paramTy  map[string]types.Type
	site     string
	rangeSeen map[ssa.Value]string
	panics   []Term
	nonnil   map[string]bool
	guardSeen map[string]bool
	scoped    []int // script lines (assumptions) that are dropped after the next loop head
	alias     map[string]string // recorded name -> current name of the variable in the same position
	boxed     map[string]boxedInfo // interface terms made from a pointer: what was boxed (see calls.go)
	freshRefs map[string]bool
}

type retRec struct {
	st   *State
	vals []Val
}

// RunNotes collects what the extraction dropped or assumed, for the evidence.
type RunNotes struct {
	Skipped   map[string]bool
	Havocked  map[string]bool
	Inlined   map[string]bool
	Assumed   map[string]bool
	Unsupported []string
}

func newNotes() *RunNotes {
	return &RunNotes{Skipped: map[string]bool{}, Havocked: map[string]bool{}, Inlined: map[string]bool{}, Assumed: map[string]bool{}}
}

type unsupported struct{ msg string }

func (fc *FnCtx) unsup(f string, a ...any) {
	panic(unsupported{fmt.Sprintf(f, a...)})
}

// ---------------------------------------------------------------------------
// Heap access

func (fc *FnCtx) heapGet(st *State, hv HeapVar) Term {
	if t, ok := st.Heap[hv.Name]; ok {
		return t
	}
	top := fc.top
	if t, ok := top.initHeap[hv.Name]; ok {
		return t
	}
	t := fc.S.Fresh(hv.Name, hv.Sort)
	top.initHeap[hv.Name] = t
	return t
}

func (fc *FnCtx) heapSet(st *State, hv HeapVar, t Term) {
	st.Heap[hv.Name] = fc.S.Name(hv.Name, t)
}

var nextVar = HeapVar{"$next", SInt, HGhost}

func (fc *FnCtx) alloc(st *State) Term {
	n := fc.heapGet(st, nextVar)
	r := fc.S.Define("ref", n)
	if fc.top.freshRefs != nil {
		fc.top.freshRefs[r.S] = true
	}
	fc.heapSet(st, nextVar, app(SInt, "+", n, IntLit(1)))
	return r
}

// readRoot reads the content of the root location of p.
func (fc *FnCtx) readRoot(st *State, p *Ptr) Term {
	switch p.Root {
	case RField:
		if fn, ok := fc.E.immFn(fc.TE, p.St, p.Field); ok {
			return app(fc.TE.Struct(p.St).Fields[p.Field].Sort, fn, p.Ref)
		}
		return Select(fc.heapGet(st, fc.TE.FieldHeap(p.St, p.Field)), p.Ref)
	case RCell:
		return Select(fc.heapGet(st, fc.TE.CellHeap(p.Elem)), p.Ref)
	case RElem:
		return fc.TE.At(Select(fc.heapGet(st, fc.TE.ElemHeap(p.Elem)), p.Ref), p.Off, p.Idx)
	case RGlobal:
		return fc.heapGet(st, fc.globalHeap(p.Glob))
	}
	panic("readRoot")
}

func (fc *FnCtx) writeRoot(st *State, p *Ptr, v Term) {
	switch p.Root {
	case RField:
		if fn, ok := fc.E.immFn(fc.TE, p.St, p.Field); ok {
			// an immutable field may only be initialised, on an object this function allocated
			fname := p.St.Underlying().(*types.Struct).Field(p.Field).Name()
			fresh := app(SBool, ">=", p.Ref, fc.heapGet(fc.top.entry, nextVar))
			fc.oblige(st, "immutable", fc.TE.Struct(p.St).Key+"."+fname, "", fresh, "immutable field "+fname+" is only written on a freshly allocated object")
			fc.S.Assume(Implies(st.PC, Eq(app(fc.TE.Struct(p.St).Fields[p.Field].Sort, fn, p.Ref), v)), "initialisation of immutable field "+fname)
			return
		}
		hv := fc.TE.FieldHeap(p.St, p.Field)
		fc.heapSet(st, hv, Store(fc.heapGet(st, hv), p.Ref, v))
	case RCell:
		hv := fc.TE.CellHeap(p.Elem)
		fc.heapSet(st, hv, Store(fc.heapGet(st, hv), p.Ref, v))
	case RElem:
		hv := fc.TE.ElemHeap(p.Elem)
		h := fc.heapGet(st, hv)
		fc.heapSet(st, hv, Store(h, p.Ref, Store(Select(h, p.Ref), app(SInt, "+", p.Off, p.Idx), v)))
	case RGlobal:
		fc.heapSet(st, fc.globalHeap(p.Glob), v)
	}
}

func (fc *FnCtx) globalHeap(g *ssa.Global) HeapVar {
	pkg := ""
	if g.Pkg != nil {
		pkg = g.Pkg.Pkg.Path()
	}
	return fc.TE.GlobalHeap(pkg, g.Name(), g.Type().(*types.Pointer).Elem())
}

func rootType(p *Ptr) types.Type {
	if p.Root == RField {
		return p.St.Underlying().(*types.Struct).Field(p.Field).Type()
	}
	return p.Elem
}

func (fc *FnCtx) loadPtr(st *State, p *Ptr) Term {
	v := fc.readRoot(st, p)
	for _, ps := range p.Path {
		v = fc.TE.FieldOf(ps.St, v, ps.Field)
	}
	return v
}

func (fc *FnCtx) storePtr(st *State, p *Ptr, nv Term) {
	if len(p.Path) == 0 {
		fc.writeRoot(st, p, nv)
		return
	}
	root := fc.readRoot(st, p)
	fc.writeRoot(st, p, fc.updPath(root, p.Path, nv))
}

func (fc *FnCtx) updPath(v Term, path []PathStep, nv Term) Term {
	if len(path) == 0 {
		return nv
	}
	ps := path[0]
	inner := fc.TE.FieldOf(ps.St, v, ps.Field)
	return fc.TE.WithField(ps.St, v, ps.Field, fc.updPath(inner, path[1:], nv))
}

func isStruct(t types.Type) bool {
	if isTime(types.Unalias(t)) {
		return false
	}
	_, ok := t.Underlying().(*types.Struct)
	return ok
}

// loadStructRef reads a whole struct through an object reference.
func (fc *FnCtx) loadStructRef(st *State, ref Term, t types.Type) Term {
	si := fc.TE.Struct(t)
	if si.Opaque {
		return Term{"zero_" + si.Sort, si.Sort}
	}
	var fs []Term
	for i := range si.Fields {
		fs = append(fs, fc.readRoot(st, &Ptr{Root: RField, Ref: ref, St: t, Field: i}))
	}
	return fc.TE.MkStruct(t, fs)
}

func (fc *FnCtx) storeStructRef(st *State, ref Term, t types.Type, v Term) {
	si := fc.TE.Struct(t)
	if si.Opaque {
		return
	}
	for i := range si.Fields {
		fc.writeRoot(st, &Ptr{Root: RField, Ref: ref, St: t, Field: i}, fc.TE.FieldOf(t, v, i))
	}
}

// ---------------------------------------------------------------------------
// Well-formedness assumptions on values entering from outside (type safety)

func (fc *FnCtx) wf(st *State, v Term, t types.Type) Term {
	t = types.Unalias(t)
	if isTime(t) {
		return Term{"(>= " + v.S + " 0)", SBool}
	}
	switch u := t.Underlying().(type) {
	case *types.Basic:
		if u.Info()&types.IsInteger != 0 && !fc.TE.BV {
			// the machine range of the type (values always lie in it; only arithmetic may leave it)
			lo, hi := intRange(u)
			if !fc.top.wideRanges() {
				// by default only the sign of unsigned values is stated: the 64-bit bounds
				// slow the solvers down markedly; contracts that need them say "opt ranges true"
				if u.Info()&types.IsUnsigned != 0 {
					return app(SBool, ">=", v, IntLit(0))
				}
				return TTrue
			}
			return And(app(SBool, "<=", IntLitStr(lo), v), app(SBool, "<=", v, IntLitStr(hi)))
		}
	case *types.Pointer, *types.Map:
		return And(app(SBool, ">=", v, IntLit(0)), app(SBool, "<", v, fc.heapGet(st, nextVar)))
	case *types.Slice:
		return And(app(SBool, ">=", app(SInt, "sl_arr", v), IntLit(0)),
			app(SBool, "<", app(SInt, "sl_arr", v), fc.heapGet(st, nextVar)),
			app(SBool, ">=", app(SInt, "sl_off", v), IntLit(0)),
			app(SBool, ">=", app(SInt, "sl_len", v), IntLit(0)),
			app(SBool, ">=", app(SInt, "sl_cap", v), app(SInt, "sl_len", v)),
			app(SBool, "<=", app(SInt, "sl_len", v), IntLit(4294967296)), // collections in memory hold at most 2^32 elements
			Implies(Eq(app(SInt, "sl_arr", v), IntLit(0)), Eq(app(SInt, "sl_cap", v), IntLit(0))))
	case *types.Struct:
		si := fc.TE.Struct(t)
		if si.Opaque {
			return TTrue
		}
		var cs []Term
		for i, f := range si.Fields {
			if f.Opaque {
				continue
			}
			cs = append(cs, fc.wf(st, fc.TE.FieldOf(t, v, i), f.Type))
		}
		return And(cs...)
	case *types.Interface:
		_ = u
	}
	return TTrue
}

func (fc *FnCtx) wideRanges() bool {
	return fc != nil && fc.C != nil && fc.C.Opts["ranges"] != ""
}

func intRange(b *types.Basic) (string, string) {
	switch b.Kind() {
	case types.Int8:
		return "-128", "127"
	case types.Int16:
		return "-32768", "32767"
	case types.Int32:
		return "-2147483648", "2147483647"
	case types.Uint8:
		return "0", "255"
	case types.Uint16:
		return "0", "65535"
	case types.Uint32:
		return "0", "4294967295"
	case types.Uint, types.Uint64, types.Uintptr:
		return "0", "18446744073709551615"
	}
	return "-9223372036854775808", "9223372036854775807"
}

func (fc *FnCtx) assumeWF(st *State, v Term, t types.Type, note string) {
	c := fc.wf(st, v, t)
	if c.S != "true" {
		fc.S.Assume(Implies(st.PC, c), "wf "+note)
	}
}

// ---------------------------------------------------------------------------
// Obligations

func (fc *FnCtx) oblige(st *State, kind, label, site string, cond Term, clause string) *Obligation {
	top := fc.top
	name := fmt.Sprintf("%s#%s", top.fnName(), kind)
	if label != "" {
		name += "[" + label + "]"
	}
	if site != "" {
		name += "@" + site
	}
	// obligation names are unique within a function: a repeated name gets an ordinal
	base := name
	for n := 2; ; n++ {
		dup := false
		for _, o := range fc.S.Obls {
			if o.Name == name {
				dup = true
				break
			}
		}
		if !dup {
			break
		}
		name = fmt.Sprintf("%s.%d", base, n)
	}
	o := &Obligation{Name: name, Func: top.fnName(), Kind: kind, Label: label, Site: site, Goal: Implies(st.PC, cond), Clause: clause}
	if top.C != nil {
		o.Serves = top.C.Serves
	}
	fc.S.Oblige(o)
	return o
}

func (fc *FnCtx) fnName() string {
	return fnKeyFull(fc.Fn)
}

// fnKey is the contract key of a function: "(*T).M", "T.M", "F", "(*T).M$1".
func fnKey(fn *ssa.Function) string {
	if fn.Parent() != nil {
		// anonymous function: parent key + $n
		name := fn.Name() // e.g. "Remove$1"
		pk := fnKey(fn.Parent())
		i := strings.LastIndex(name, "$")
		if i >= 0 {
			return pk + name[i:]
		}
		return pk + "$" + name
	}
	if recv := fn.Signature.Recv(); recv != nil {
		rt := recv.Type()
		if p, ok := rt.(*types.Pointer); ok {
			if n, ok := p.Elem().(*types.Named); ok {
				return "(*" + n.Obj().Name() + ")." + fn.Name()
			}
		}
		if n, ok := rt.(*types.Named); ok {
			return n.Obj().Name() + "." + fn.Name()
		}
	}
	return fn.Name()
}

func fnPkgPath(fn *ssa.Function) string {
	for f := fn; f != nil; f = f.Parent() {
		if f.Pkg != nil {
			return f.Pkg.Pkg.Path()
		}
	}
	if fn.Object() != nil && fn.Object().Pkg() != nil {
		return fn.Object().Pkg().Path()
	}
	if o := fn.Origin(); o != nil && o != fn {
		return fnPkgPath(o)
	}
	return ""
}

func fnKeyFull(fn *ssa.Function) string {
	return strings.TrimPrefix(fnPkgPath(fn), "github.com/andydunstall/piko/") + "." + fnKey(fn)
}

// ---------------------------------------------------------------------------
// CFG preparation

func (fc *FnCtx) prepareCFG() {
	fn := fc.Fn
	fc.backEdge = map[[2]*ssa.BasicBlock]bool{}
	fc.loops = map[*ssa.BasicBlock]*loopInfo{}
	reach := map[*ssa.BasicBlock]bool{}
	var dfs func(b *ssa.BasicBlock)
	var post []*ssa.BasicBlock
	onstack := map[*ssa.BasicBlock]bool{}
	dfs = func(b *ssa.BasicBlock) {
		reach[b] = true
		onstack[b] = true
		for _, s := range b.Succs {
			if onstack[s] {
				if !s.Dominates(b) {
					fc.unsup("irreducible control flow in %s", fn.Name())
				}
				fc.backEdge[[2]*ssa.BasicBlock{b, s}] = true
				continue
			}
			if !reach[s] {
				dfs(s)
			}
		}
		onstack[b] = false
		post = append(post, b)
	}
	dfs(fn.Blocks[0])
	for i := len(post) - 1; i >= 0; i-- {
		fc.order = append(fc.order, post[i])
	}
	// loops
	var headers []*ssa.BasicBlock
	for e := range fc.backEdge {
		h := e[1]
		li := fc.loops[h]
		if li == nil {
			li = &loopInfo{Header: h, Blocks: map[*ssa.BasicBlock]bool{h: true}}
			fc.loops[h] = li
			headers = append(headers, h)
		}
		li.BackFrom = append(li.BackFrom, e[0])
		// natural loop: all blocks that reach e[0] without passing h
		var stack []*ssa.BasicBlock
		if !li.Blocks[e[0]] {
			li.Blocks[e[0]] = true
			stack = append(stack, e[0])
		}
		for len(stack) > 0 {
			b := stack[len(stack)-1]
			stack = stack[:len(stack)-1]
			for _, p := range b.Preds {
				if !li.Blocks[p] && reach[p] {
					li.Blocks[p] = true
					stack = append(stack, p)
				}
			}
		}
	}
	sort.Slice(headers, func(i, j int) bool { return headers[i].Index < headers[j].Index })
	// ordinal by source position of the header (falls back to block index)
	sort.SliceStable(headers, func(i, j int) bool {
		pi, pj := blockPos(headers[i]), blockPos(headers[j])
		if pi != pj && pi != token.NoPos && pj != token.NoPos {
			return pi < pj
		}
		return headers[i].Index < headers[j].Index
	})
	for i, h := range headers {
		li := fc.loops[h]
		li.Ordinal = i + 1
		sort.Slice(li.BackFrom, func(a, b int) bool { return li.BackFrom[a].Index < li.BackFrom[b].Index })
		if fc.C != nil {
			li.Spec = fc.C.Loops[li.Ordinal]
		}
	}
}

func blockPos(b *ssa.BasicBlock) token.Pos {
	for _, in := range b.Instrs {
		if _, ok := in.(*ssa.Phi); ok {
			continue
		}
		if _, ok := in.(*ssa.DebugRef); ok {
			continue
		}
		if p := in.Pos(); p != token.NoPos {
			return p
		}
	}
	return token.NoPos
}

// ---------------------------------------------------------------------------
// Merging

func (fc *FnCtx) mergeStates(conds []Term, sts []*State) *State {
	if len(sts) == 1 {
		n := sts[0].clone()
		n.PC = conds[0]
		return n
	}
	n := &State{Heap: map[string]Term{}}
	n.PC = fc.S.Define("pc", Or(conds...))
	keys := map[string]bool{}
	for _, s := range sts {
		for k := range s.Heap {
			keys[k] = true
		}
	}
	var ks []string
	for k := range keys {
		ks = append(ks, k)
	}
	sort.Strings(ks)
	for _, k := range ks {
		var ts []Term
		same := true
		for _, s := range sts {
			t, ok := s.Heap[k]
			if !ok {
				t, ok = fc.top.initHeap[k]
				if !ok {
					// not yet declared anywhere: find sort from a state that has it
					for _, s2 := range sts {
						if t2, ok2 := s2.Heap[k]; ok2 {
							t = fc.S.Fresh(k, t2.Sort)
							fc.top.initHeap[k] = t
							break
						}
					}
				}
			}
			ts = append(ts, t)
			if t.S != ts[0].S {
				same = false
			}
		}
		if same {
			n.Heap[k] = ts[0]
			continue
		}
		m := ts[len(ts)-1]
		for i := len(ts) - 2; i >= 0; i-- {
			m = Ite(conds[i], ts[i], m)
		}
		n.Heap[k] = fc.S.Name(k, m)
	}
	return n
}

func (fc *FnCtx) mergeVals(conds []Term, vs []Val) Val {
	if len(vs) == 1 {
		return vs[0]
	}
	// all plain terms?
	allT := true
	for _, v := range vs {
		if v.P != nil || v.Fn != nil || v.Tup != nil {
			allT = false
		}
	}
	if allT {
		m := vs[len(vs)-1].T
		for i := len(vs) - 2; i >= 0; i-- {
			m = Ite(conds[i], vs[i].T, m)
		}
		return tv(fc.S.Name("phi", m))
	}
	// identical structured values are fine
	same := true
	for _, v := range vs[1:] {
		if fmt.Sprint(v) != fmt.Sprint(vs[0]) {
			same = false
		}
	}
	if same {
		return vs[0]
	}
	fc.unsup("phi of structured pointer values")
	return Val{}
}

// ---------------------------------------------------------------------------
// Running a function body

// run executes the body from the given entry state; returns the merged exit
// state and result values (nil state if the function never returns).
func (fc *FnCtx) run(entry *State) (*State, []Val) {
	fc.prepareCFG()
	fc.out = map[*ssa.BasicBlock]*State{}
	fc.edge = map[[2]*ssa.BasicBlock]Term{}
	fc.entry = entry
	for _, b := range fc.order {
		var st *State
		if b == fc.Fn.Blocks[0] {
			st = entry.clone()
		} else {
			var conds []Term
			var sts []*State
			var preds []*ssa.BasicBlock
			for _, p := range b.Preds {
				if fc.backEdge[[2]*ssa.BasicBlock{p, b}] {
					continue
				}
				ps, ok := fc.out[p]
				if !ok {
					continue // unreachable pred
				}
				conds = append(conds, fc.edge[[2]*ssa.BasicBlock{p, b}])
				sts = append(sts, ps)
				preds = append(preds, p)
			}
			if len(sts) == 0 {
				continue
			}
			st = fc.mergeStates(conds, sts)
			// phis
			for _, in := range b.Instrs {
				phi, ok := in.(*ssa.Phi)
				if !ok {
					break
				}
				var vs []Val
				for _, p := range preds {
					vs = append(vs, fc.operandOnEdge(phi, p, b))
				}
				fc.vals[phi] = fc.mergeVals(conds, vs)
			}
		}
		if li := fc.loops[b]; li != nil {
			fc.enterLoop(li, st)
		}
		fc.execBlock(b, st)
	}
	// merge returns
	if len(fc.rets) == 0 {
		return nil, nil
	}
	var conds []Term
	var sts []*State
	for _, r := range fc.rets {
		conds = append(conds, r.st.PC)
		sts = append(sts, r.st)
	}
	exit := fc.mergeStates(conds, sts)
	var res []Val
	for i := range fc.rets[0].vals {
		var vs []Val
		for _, r := range fc.rets {
			vs = append(vs, r.vals[i])
		}
		res = append(res, fc.mergeVals(conds, vs))
	}
	return exit, res
}

func (fc *FnCtx) operandOnEdge(phi *ssa.Phi, pred, b *ssa.BasicBlock) Val {
	for i, p := range b.Preds {
		if p == pred {
			return fc.val(phi.Edges[i])
		}
	}
	panic("pred not found")
}

// enterLoop cuts the loop at its header: assert invariants on entry, havoc the
// loop-modified state, assume the invariants.
func (fc *FnCtx) enterLoop(li *loopInfo, st *State) {
	if fc.depth > 0 {
		fc.unsup("loop in inlined callee %s needs a contract", fc.Fn.Name())
	}
	if li.Spec == nil {
		li.Spec = &LoopSpec{Ordinal: li.Ordinal}
	}
	if !li.autoDone {
		li.autoDone = true
		// the index of a compiler-generated range loop over a slice never goes below -1
		for _, in := range li.Header.Instrs {
			if phi, ok := in.(*ssa.Phi); ok && phi.Comment == "rangeindex" {
				spec := *li.Spec
				spec.Invariants = append([]*Clause{{Kind: "invariant", Label: "auto-rangeindex", Expr: SBinary{"<=", SUnary{"-", SIntLit{"1"}}, SIdent{"rangeindex"}}, Src: "-1 <= rangeindex", Pos: "auto"}}, li.Spec.Invariants...)
				li.Spec = &spec
			}
		}
	}
	site := fmt.Sprintf("loop%d", li.Ordinal)
	li.Entry = st.clone()
	li.EntryPhis = map[ssa.Value]Val{}
	for _, in := range li.Header.Instrs {
		if phi, ok := in.(*ssa.Phi); ok {
			li.EntryPhis[phi] = fc.vals[phi]
		}
	}
	env := fc.specEnv(st)
	env.AtBlock = li.Header
	env.Named["loop"], env.LoopPhis = li.Entry, li.EntryPhis
	// 1. invariants hold on entry
	for _, cl := range li.Spec.Invariants {
		parts := fc.evalClauseParts(env, cl)
		for i, t := range parts {
			lab := cl.Label
			if len(parts) > 1 {
				lab = fmt.Sprintf("%s/%d", cl.Label, i+1)
			}
			fc.oblige(st, site+".invariant", lab, "entry", t, cl.Src)
		}
	}
	// assumptions that were only meant to reach this loop head (e.g. "sorted with respect to
	// less" after sort.Slice: a two-variable quantifier that the invariants now stand in for)
	for _, idx := range fc.top.scoped {
		if fc.S.Until == nil {
			fc.S.Until = map[int]int{}
		}
		if _, ok := fc.S.Until[idx]; !ok {
			fc.S.Until[idx] = len(fc.S.Lines)
		}
	}
	fc.top.scoped = nil
	// 2. havoc
	fc.havocLoop(li, st)
	// 3. assume invariants
	env = fc.specEnv(st)
	env.AtBlock = li.Header
	env.Named["loop"], env.LoopPhis = li.Entry, li.EntryPhis
	for _, cl := range li.Spec.Invariants {
		t := fc.evalClause(env, cl)
		fc.S.Assume(Implies(st.PC, t), site+" invariant "+cl.Label)
	}
	// loop frame: of the objects that existed at loop entry only the listed locations change
	if li.Spec.HasFrame {
		for _, f := range fc.loopFrames(li, st) {
			fc.S.Assume(Implies(st.PC, f.T), site+" frame "+f.Name)
		}
	}
	// canary: the loop head must be reachable under the invariants
	o := fc.oblige(st, site+".canary", "", "", TFalse, "reachability of the loop head under its invariants")
	o.Canary = true
}

func (fc *FnCtx) loopWrites(li *loopInfo) (map[string]HeapVar, map[string][]Term, bool) {
	ws := map[string]HeapVar{}
	for b := range li.Blocks {
		for _, in := range b.Instrs {
			fc.E.instrWrites(fc, in, ws, 0)
		}
	}
	fc.E.dropImm(ws)
	return ws, nil, false
}

func (fc *FnCtx) havocLoop(li *loopInfo, st *State) {
	ws, _, _ := fc.loopWrites(li)
	var names []string
	for n := range ws {
		names = append(names, n)
	}
	sort.Strings(names)
	nonFresh := fc.loopNonFreshWrites(li)
	entryNext := fc.heapGet(st, nextVar)
	for _, n := range names {
		hv := ws[n]
		old := fc.heapGet(st, hv)
		nw := fc.S.Fresh(hv.Name+"$loop", hv.Sort)
		st.Heap[hv.Name] = nw
		if hv.Name == "$next" {
			fc.S.Assume(app(SBool, ">=", nw, old), "allocation counter grows")
			continue
		}
		if !nonFresh[n] && strings.HasPrefix(hv.Sort, "(Array Int") && hv.Kind != HGhost && hv.Kind != HGlobal {
			// every write of the loop body to this heap goes to an object the body itself
			// allocated: objects that existed at loop entry are unchanged
			fc.S.Assume(Implies(st.PC, Term{fmt.Sprintf("(forall ((r!f Int)) (! (=> (< r!f %s) (= (select %s r!f) (select %s r!f))) :pattern ((select %s r!f))))", entryNext.S, nw.S, old.S, nw.S), SBool}), "loop frame: "+n+" only written on objects allocated by the loop body")
		}
	}
	// the allocation counter may grow in any loop that allocates
	// phis
	for _, in := range li.Header.Instrs {
		phi, ok := in.(*ssa.Phi)
		if !ok {
			break
		}
		if isPtrLike(fc.vals[phi]) {
			fc.unsup("loop-carried interior pointer")
		}
		nv := fc.S.Fresh(phiName(phi), fc.TE.SortOf(phi.Type()))
		fc.vals[phi] = tv(nv)
		fc.assumeWF(st, nv, phi.Type(), "loop phi")
	}
}

type namedTerm struct {
	Name string
	T    Term
}

// loopFrames: for every heap variable the loop may write at a pre-existing
// object, the statement that (relative to the state at loop entry) only the
// locations of the loop's frame clause changed.
func (fc *FnCtx) loopFrames(li *loopInfo, cur *State) []namedTerm {
	ws, _, _ := fc.loopWrites(li)
	nonFresh := fc.loopNonFreshWrites(li)
	env := fc.specEnv(li.Entry)
	env.AtBlock = li.Header
	// the frame's locations are those denoted at loop entry: header phis take their entry values
	saved := map[ssa.Value]Val{}
	for phi, v := range li.EntryPhis {
		saved[phi] = fc.vals[phi]
		fc.vals[phi] = v
	}
	defer func() {
		for phi, v := range saved {
			fc.vals[phi] = v
		}
	}()
	locs := fc.locsOfExprs(li.Entry, env, li.Spec.Frame, li.Spec.FrameSrc, fmt.Sprintf("loop %d frame", li.Ordinal))
	var out []namedTerm
	for _, n := range sortedHeapNames(ws) {
		hv := ws[n]
		if !nonFresh[n] || hv.Kind == HGhost || hv.Kind == HGlobal || !strings.HasPrefix(hv.Sort, "(Array Int") {
			continue
		}
		f := fc.frameFormula(li.Entry, cur, hv, locs[n])
		if f.S == "true" {
			continue
		}
		out = append(out, namedTerm{n, f})
	}
	return out
}

// loopNonFreshWrites: heap variables that the loop body may write at an
// object that already existed at loop entry (syntactic, conservative).
func (fc *FnCtx) loopNonFreshWrites(li *loopInfo) map[string]bool {
	nf := map[string]bool{}
	inLoop := func(v ssa.Value) bool {
		in, ok := v.(ssa.Instruction)
		return ok && in.Block() != nil && li.Blocks[in.Block()]
	}
	// freshBase: the object written through addr was allocated inside the loop body
	var freshBase func(addr ssa.Value) bool
	freshBase = func(addr ssa.Value) bool {
		switch a := addr.(type) {
		case *ssa.FieldAddr:
			return freshBase(a.X)
		case *ssa.IndexAddr:
			switch x := a.X.(type) {
			case *ssa.Alloc:
				return inLoop(x)
			case *ssa.MakeSlice:
				return inLoop(x)
			case *ssa.Slice:
				return freshBase(x.X)
			}
			return false
		case *ssa.Alloc:
			return inLoop(a)
		case *ssa.MakeMap:
			return inLoop(a)
		case *ssa.MakeSlice:
			return inLoop(a)
		}
		return false
	}
	for b := range li.Blocks {
		for _, in := range b.Instrs {
			one := map[string]HeapVar{}
			switch x := in.(type) {
			case *ssa.Store:
				if freshBase(x.Addr) {
					continue
				}
			case *ssa.MapUpdate:
				if freshBase(x.Map) {
					continue
				}
			case *ssa.Alloc, *ssa.MakeMap, *ssa.MakeSlice, *ssa.Next, *ssa.Range:
				continue
			}
			fc.E.instrWrites(fc, in, one, 0)
			for n := range one {
				nf[n] = true
			}
		}
	}
	return nf
}

func isPtrLike(v Val) bool { return v.P != nil || v.Fn != nil || v.Tup != nil }

func phiName(phi *ssa.Phi) string {
	if phi.Comment != "" {
		return phi.Comment
	}
	return phi.Name()
}

// closeLoop: at a back edge, the invariants must be re-established.
func (fc *FnCtx) closeLoop(li *loopInfo, from *ssa.BasicBlock, st *State, cond Term) {
	// values of header phis along this edge
	saved := map[ssa.Value]Val{}
	for _, in := range li.Header.Instrs {
		phi, ok := in.(*ssa.Phi)
		if !ok {
			break
		}
		saved[phi] = fc.vals[phi]
	}
	newv := map[ssa.Value]Val{}
	for phi := range saved {
		newv[phi] = fc.operandOnEdge(phi.(*ssa.Phi), from, li.Header)
	}
	for phi, v := range newv {
		fc.vals[phi] = v
	}
	st2 := st.clone()
	st2.PC = cond
	env := fc.specEnv(st2)
	env.AtBlock = li.Header
	env.Named["loop"], env.LoopPhis = li.Entry, li.EntryPhis
	site := fmt.Sprintf("loop%d", li.Ordinal)
	s := "preserved"
	if len(li.BackFrom) > 1 {
		for k, b := range li.BackFrom {
			if b == from {
				s = fmt.Sprintf("preserved.%d", k+1)
			}
		}
	}
	for _, cl := range li.Spec.Invariants {
		parts := fc.evalClauseParts(env, cl)
		for i, t := range parts {
			lab := cl.Label
			if len(parts) > 1 {
				lab = fmt.Sprintf("%s/%d", cl.Label, i+1)
			}
			fc.oblige(st2, site+".invariant", lab, s, t, cl.Src)
		}
	}
	if li.Spec.HasFrame {
		for _, f := range fc.loopFrames(li, st2) {
			fc.oblige(st2, site+".frame", f.Name, s, f.T, "of the objects existing at loop entry only "+strings.Join(li.Spec.FrameSrc, ", ")+" may change in "+f.Name)
		}
	}
	// the back edge itself must be reachable, or the obligations above are vacuous
	if len(li.Spec.Invariants) > 0 {
		o := fc.oblige(st2, site+".canary", "", s, TFalse, "reachability of the back edge")
		o.Canary = true
	}
	for phi, v := range saved {
		fc.vals[phi] = v
	}
}

func (fc *FnCtx) execBlock(b *ssa.BasicBlock, st *State) {
	for _, in := range b.Instrs {
		if _, ok := in.(*ssa.Phi); ok {
			continue
		}
		fc.execInstr(in, st)
		if st.PC.S == "false" {
			// still record out-state for successors with false edges
		}
	}
	fc.out[b] = st
	// terminator: edge conditions
	last := b.Instrs[len(b.Instrs)-1]
	switch t := last.(type) {
	case *ssa.If:
		c := fc.val(t.Cond).T
		fc.setEdge(b, b.Succs[0], And(st.PC, c), st)
		fc.setEdge(b, b.Succs[1], And(st.PC, Not(c)), st)
	case *ssa.Jump:
		fc.setEdge(b, b.Succs[0], st.PC, st)
	}
}

func (fc *FnCtx) setEdge(from, to *ssa.BasicBlock, cond Term, st *State) {
	cond = fc.S.Define("edge", cond)
	// leaving a loop (to a block outside it, or to an enclosing loop's header): its exit clauses must hold
	for _, li := range fc.loops {
		if li.Blocks[from] && !li.Blocks[to] && li.Spec != nil && len(li.Spec.Ensures) > 0 && li.Entry != nil {
			st2 := st.clone()
			st2.PC = cond
			env := fc.specEnv(st2)
			env.AtBlock = li.Header
			env.Named["loop"], env.LoopPhis = li.Entry, li.EntryPhis
			site := fmt.Sprintf("loop%d", li.Ordinal)
			for _, cl := range li.Spec.Ensures {
				fc.oblige(st2, site+".ensures", cl.Label, "", fc.evalClause(env, cl), cl.Src)
			}
		}
	}
	if fc.backEdge[[2]*ssa.BasicBlock{from, to}] {
		fc.closeLoop(fc.loops[to], from, st, cond)
		return
	}
	fc.edge[[2]*ssa.BasicBlock{from, to}] = cond
}

// ---------------------------------------------------------------------------
// Operand evaluation

func (fc *FnCtx) val(v ssa.Value) Val {
	if x, ok := fc.vals[v]; ok {
		return x
	}
	switch c := v.(type) {
	case *ssa.Const:
		return fc.constVal(c)
	case *ssa.Global:
		elem := c.Type().(*types.Pointer).Elem()
		return Val{P: &Ptr{Root: RGlobal, Glob: c, Elem: elem}}
	case *ssa.Function:
		return Val{Fn: &FnVal{Fn: c}, T: fc.fnConst(c)}
	case *ssa.Builtin:
		return Val{}
	case *ssa.Parameter, *ssa.FreeVar:
		fc.unsup("unbound parameter %s in %s", v.Name(), fc.Fn.Name())
	}
	fc.unsup("use of undefined value %s (%T) in %s", v.Name(), v, fc.Fn.Name())
	return Val{}
}

func (fc *FnCtx) fnConst(f *ssa.Function) Term {
	name := "fn." + sanitize(fnKeyFull(f))
	fc.TE.G.DeclareFun(name, nil, SInt)
	fc.TE.G.AddAxiom(name+".nonnil", fmt.Sprintf("(assert (> %s 0))", name), name)
	fc.TE.G.DeclareFun("fncode", []string{SInt}, SInt)
	fc.TE.G.AddAxiom(name+".code", fmt.Sprintf("(assert (= (fncode %s) %d))", name, fnCode(fnIdentity(f))), name, "fncode")
	return Term{name, SInt}
}

func (fc *FnCtx) constVal(c *ssa.Const) Val {
	t := c.Type()
	if c.Value == nil {
		return tv(fc.TE.Zero(t))
	}
	switch u := t.Underlying().(type) {
	case *types.Basic:
		switch {
		case u.Info()&types.IsBoolean != 0:
			if constant.BoolVal(c.Value) {
				return tv(TTrue)
			}
			return tv(TFalse)
		case u.Info()&types.IsInteger != 0:
			s := c.Value.ExactString()
			if fc.TE.BV {
				n, _ := constant.Int64Val(c.Value)
				if !isNegConst(c.Value) {
					un, _ := constant.Uint64Val(c.Value)
					return tv(Term{fmt.Sprintf("(_ bv%d 64)", un), SBV64})
				}
				return tv(Term{fmt.Sprintf("(_ bv%d 64)", uint64(n)), SBV64})
			}
			return tv(IntLitStr(s))
		case u.Info()&types.IsFloat != 0:
			f, _ := constant.Float64Val(c.Value)
			return tv(fc.TE.FLit(f))
		case u.Info()&types.IsString != 0:
			return tv(fc.TE.G.StrLit(constant.StringVal(c.Value)))
		}
	}
	fc.unsup("constant %s of type %s", c, t)
	return Val{}
}

func isNegConst(v constant.Value) bool { return constant.Sign(v) < 0 }

func floatLit(f float64) Term {
	bits := fmt.Sprintf("%064b", mathFloat64bits(f))
	return Term{fmt.Sprintf("(fp #b%s #b%s #b%s)", bits[0:1], bits[1:12], bits[12:]), SF64}
}

// term returns the SMT term of a plain value.
func (fc *FnCtx) term(v ssa.Value) Term {
	x := fc.val(v)
	if x.P != nil || x.Tup != nil {
		fc.unsup("value %s (%s) used as a term in %s", v.Name(), v.Type(), fc.Fn.Name())
	}
	return x.T
}
