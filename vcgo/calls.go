package main

import (
	"fmt"
	"go/types"
	"strings"

	"golang.org/x/tools/go/ssa"
)

func fullName(fn *ssa.Function) string {
	if fn == nil {
		return ""
	}
	o := fn
	if fn.Origin() != nil {
		o = fn.Origin()
	}
	return fnPkgPath(o) + "." + fnKey(o)
}

// doCall interprets a call (also used for deferred calls).
func (fc *FnCtx) doCall(st *State, c *ssa.CallCommon, in ssa.Instruction, site string) Val {
	if b, ok := c.Value.(*ssa.Builtin); ok {
		return fc.builtin(st, b, c, in, site)
	}
	var resTypes []types.Type
	sig := c.Signature()
	for i := 0; i < sig.Results().Len(); i++ {
		resTypes = append(resTypes, sig.Results().At(i).Type())
	}
	if c.IsInvoke() {
		fc.callOrder(st, c, site)
		return fc.invoke(st, c, in, site, resTypes)
	}
	callee := c.StaticCallee()
	if callee == nil || !strings.HasPrefix(fullName(callee), "sync.") {
		fc.callOrder(st, c, site)
	}
	var args []Val
	var fv *FnVal
	if callee == nil {
		v := fc.val(c.Value)
		fv = v.Fn
		if fv == nil && !v.T.IsZero() {
			fv = fc.E.closures[v.T.S]
		}
		if fv == nil {
			return fc.dynCall(st, c, in, site, resTypes)
		}
		callee = fv.Fn
	}
	for _, a := range c.Args {
		args = append(args, fc.val(a))
	}
	if fv != nil && fv.Recv != nil {
		args = append([]Val{*fv.Recv}, args...)
	}
	name := fullName(callee)
	// 1. library specifications
	if r, ok := fc.libCall(st, name, callee, c, args, in, site, resTypes); ok {
		return r
	}
	// 2. no-op list
	if fc.E.isNoop(callee) {
		fc.notes.Skipped[name] = true
		return fc.freshResults(st, resTypes, "noop."+callee.Name(), true)
	}
	// 3. contract
	if ct := fc.E.contractFor(callee); ct != nil {
		return fc.applyContract(st, ct, callee, nil, args, site, resTypes)
	}
	// 4. inline in-module bodies
	if len(callee.Blocks) > 0 && strings.HasPrefix(fnPkgPath(callee), fc.E.P.Module) {
		if fc.depth >= 4 {
			fc.unsup("inlining depth exceeded at %s", name)
		}
		return fc.inline(st, callee, args, fv, site)
	}
	// 5. unknown external function: results havocked
	fc.notes.Havocked[name] = true
	fc.havocOn(st, name)
	if touchesBuffer(callee) {
		// an unspecified operation on the buffer or the encoder: the ghost buffer model is lost
		for _, hv := range []HeapVar{bufLenVar, bufItemsVar, bufEndVar} {
			st.Heap[hv.Name] = fc.S.Fresh(hv.Name+".ext", hv.Sort)
		}
	}
	for i, a := range c.Args {
		if _, isPtr := a.Type().Underlying().(*types.Pointer); isPtr {
			fc.havocPointee(st, a, args[i])
		}
		fc.havocSliceArg(st, a, args[i])
		// a pointer handed over inside an interface value (Decode(&v), Unmarshal(.., &v)): the
		// callee may write through it just the same
		if types.IsInterface(a.Type()) && !args[i].T.IsZero() {
			if bi, ok := fc.top.boxed[args[i].T.S]; ok {
				if _, isPtr := bi.typ.Underlying().(*types.Pointer); isPtr {
					fc.havocPointeeOf(st, bi.typ, bi.val)
				}
			}
		}
		// a function value handed to an unspecified callee (rand.Shuffle's swap, ...) may be
		// called any number of times: everything it can write is unknown afterwards
		if args[i].Fn != nil && args[i].Fn.Fn != nil && len(args[i].Fn.Fn.Blocks) > 0 {
			ws := fc.E.fnWrites(fc, args[i].Fn.Fn, 0)
			for _, n := range sortedHeapNames(ws) {
				hv := ws[n]
				if hv.Name == "$next" {
					continue
				}
				st.Heap[hv.Name] = fc.S.Fresh(hv.Name+".cb", hv.Sort)
			}
			fc.notes.Assumed["callback passed to unspecified "+name+": every heap it may write is treated as unknown afterwards"] = true
		}
	}
	return fc.freshResults(st, resTypes, callee.Name(), false)
}

// havocPointee: an external callee may write through a pointer argument.
func (fc *FnCtx) havocPointee(st *State, a ssa.Value, v Val) {
	fc.havocPointeeOf(st, a.Type(), v)
}

func (fc *FnCtx) havocPointeeOf(st *State, ptrType types.Type, v Val) {
	elem := ptrType.Underlying().(*types.Pointer).Elem()
	if v.P != nil {
		nv := fc.S.Fresh("ext", fc.TE.SortOf(elem))
		if len(v.P.Path) == 0 {
			fc.writeRoot(st, v.P, nv)
		} else {
			fc.storePtr(st, v.P, nv)
		}
		return
	}
	if isStruct(elem) {
		n, _ := types.Unalias(elem).(*types.Named)
		if n != nil && n.Obj().Pkg() != nil && strings.HasPrefix(n.Obj().Pkg().Path(), fc.E.P.Module) {
			si := fc.TE.Struct(elem)
			for i, f := range si.Fields {
				hv := fc.TE.FieldHeap(elem, i)
				fc.heapSet(st, hv, Store(fc.heapGet(st, hv), v.T, fc.S.Fresh("ext."+f.Name, f.Sort)))
			}
		}
	}
}

func (fc *FnCtx) freshResults(st *State, resTypes []types.Type, hint string, nonNil bool) Val {
	var vs []Val
	for _, t := range resTypes {
		v := fc.S.Fresh(hint, fc.TE.SortOf(t))
		fc.assumeWF(st, v, t, "result of "+hint)
		if nonNil && isRefLike(t) {
			fc.S.Assume(Not(Eq(v, IntLit(0))), "result of "+hint+" is not nil")
		}
		vs = append(vs, tv(v))
	}
	switch len(vs) {
	case 0:
		return Val{}
	case 1:
		return vs[0]
	}
	return Val{Tup: vs}
}

func (fc *FnCtx) dynCall(st *State, c *ssa.CallCommon, in ssa.Instruction, site string, resTypes []types.Type) Val {
	// a call through a function value we cannot resolve: a typed contract may be
	// attached to the call site through "opt dyncall <contract key>"
	if fc.top.C != nil {
		if key, ok := fc.top.C.Opts["dyncall"]; ok {
			if ct := fc.E.CS.ByKey[fc.top.C.PkgPath+"."+key]; ct != nil {
				var args []Val
				for _, a := range c.Args {
					args = append(args, fc.val(a))
				}
				return fc.applyContract(st, ct, nil, c.Signature(), args, site, resTypes)
			}
		}
	}
	fc.notes.Havocked["dynamic call at "+site] = true
	return fc.freshResults(st, resTypes, "dyn", false)
}

func (fc *FnCtx) invoke(st *State, c *ssa.CallCommon, in ssa.Instruction, site string, resTypes []types.Type) Val {
	recv := fc.val(c.Value)
	var args []Val
	args = append(args, recv)
	for _, a := range c.Args {
		args = append(args, fc.val(a))
	}
	it := c.Value.Type()
	mname := c.Method.Name()
	// the msgpack encoder is reached through an embedded interface of codec.Encoder
	if n, ok := types.Unalias(it).(*types.Named); ok && n.Obj().Pkg() != nil && n.Obj().Pkg().Path() == "github.com/ugorji/go/codec" && mname == "Encode" {
		if v, ok := fc.bufCall(st, "github.com/ugorji/go/codec.(*Encoder).Encode", args, resTypes); ok {
			return v
		}
	}
	if isNoopIface(it) {
		fc.notes.Skipped[it.String()+"."+mname] = true
		return fc.freshResults(st, resTypes, "noop."+mname, true)
	}
	// error.Error() etc.
	if name, ret, ok := fc.E.pureMethod(it, mname); ok {
		ts := []Term{recv.T}
		sorts := []string{recv.T.Sort}
		for _, a := range args[1:] {
			ts = append(ts, a.T)
			sorts = append(sorts, a.T.Sort)
		}
		fc.TE.G.DeclareFun(name, sorts, fc.TE.SortOf(ret))
		fc.oblige(st, "no-panic", "nil-iface", site, Not(isNilTerm(recv.T)), "method call on nil interface")
		return tv(app(fc.TE.SortOf(ret), name, ts...))
	}
	if ct := fc.E.ifaceContract(it, mname); ct != nil {
		fc.oblige(st, "no-panic", "nil-iface", site, Not(isNilTerm(recv.T)), "method call on nil interface")
		return fc.applyContract(st, ct, nil, c.Signature(), args, site, resTypes)
	}
	fc.notes.Havocked["invoke "+it.String()+"."+mname] = true
	// an unspecified method may write through the pointers it is given, directly or inside an
	// interface value (Decode(&v))
	for i, a := range c.Args {
		av := args[i+1]
		if _, isPtr := a.Type().Underlying().(*types.Pointer); isPtr {
			fc.havocPointee(st, a, av)
		}
		fc.havocSliceArg(st, a, av)
		if types.IsInterface(a.Type()) && !av.T.IsZero() {
			if bi, ok := fc.top.boxed[av.T.S]; ok {
				if _, isPtr := bi.typ.Underlying().(*types.Pointer); isPtr {
					fc.havocPointeeOf(st, bi.typ, bi.val)
				}
			}
		}
	}
	return fc.freshResults(st, resTypes, mname, false)
}

// applyContract: modular call rule.
func (fc *FnCtx) applyContract(st *State, ct *Contract, callee *ssa.Function, sig *types.Signature, args []Val, site string, resTypes []types.Type) Val {
	env := fc.specEnv(st)
	env.PkgPath = ct.PkgPath
	env.Vars = map[string]TVal{}
	env.Macros = map[string]SExpr{}
	env.AtBlock = nil
	for _, l := range ct.Lets {
		env.Macros[l.Name] = l.Expr
	}
	// bind parameters
	if ct.Extern || ct.Trusted != "" {
		fc.notes.Assumed["assumed contract (body not verified): "+ct.Key+" - "+ct.Trusted] = true
	}
	if ct.Extern {
		// a callee that is only specified may be handed the address of an embedded struct:
		// it is an identity to the specification, nothing is accessed through it
		args = append([]Val{}, args...)
		for i := range args {
			if args[i].P != nil && args[i].T.IsZero() {
				if t, ok := fc.ptrAsTerm(args[i]); ok {
					args[i] = Val{T: t}
				}
			}
		}
	}
	if callee != nil && len(callee.Params) == 0 && len(args) > 0 {
		// a function without a body (another module): names come from the signature
		sig = callee.Signature
		off := 0
		if r := sig.Recv(); r != nil {
			name := r.Name()
			if name == "" || name == "_" {
				name = "self"
			}
			env.Vars[name] = TVal{T: args[0].T, Ty: r.Type(), P: args[0].P}
			env.Vars["self"] = env.Vars[name]
			off = 1
		}
		for i := 0; i < sig.Params().Len(); i++ {
			p := sig.Params().At(i)
			if i+off < len(args) {
				env.Vars[p.Name()] = TVal{T: args[i+off].T, Ty: p.Type(), P: args[i+off].P}
				env.Vars[fmt.Sprintf("arg%d", i)] = env.Vars[p.Name()]
			}
		}
	} else if callee != nil {
		off := 0
		if callee.Signature.Recv() != nil {
			off = 1
		}
		for i, p := range callee.Params {
			if i < len(args) {
				env.Vars[p.Name()] = TVal{T: args[i].T, Ty: p.Type(), P: args[i].P}
				if i >= off {
					env.Vars[fmt.Sprintf("arg%d", i-off)] = env.Vars[p.Name()]
				}
			}
		}
		sig = callee.Signature
	} else {
		off := 0
		if ct.Iface {
			var rt types.Type
			if r := sig.Recv(); r != nil {
				rt = r.Type()
			}
			env.Vars["self"] = TVal{T: args[0].T, Ty: rt}
			off = 1
		}
		for i := 0; i < sig.Params().Len(); i++ {
			p := sig.Params().At(i)
			if i+off < len(args) {
				env.Vars[p.Name()] = TVal{T: args[i+off].T, Ty: p.Type(), P: args[i+off].P}
				env.Vars[fmt.Sprintf("arg%d", i)] = env.Vars[p.Name()]
			}
		}
	}
	// parameters renamed in the code since the ledger was written: the contract's names are
	// read by position
	if callee != nil && len(callee.Blocks) > 0 {
		if rec, ok := fc.E.recorded[fnKeyFull(callee)]; ok && len(rec.Params) == len(callee.Params) {
			for i, p := range callee.Params {
				if rec.Params[i] != p.Name() {
					if v, ok := env.Vars[p.Name()]; ok {
						if _, taken := env.Vars[rec.Params[i]]; !taken {
							env.Vars[rec.Params[i]] = v
						}
					}
				}
			}
		}
	}
	// requires
	for _, cl := range ct.Requires {
		if strings.HasPrefix(cl.Label, "env-") {
			// an assumption about the environment (e.g. what the network delivers): assumed by
			// the callee, not established by any caller; listed in the evidence
			fc.notes.Assumed["environment assumption of "+ct.Key+" ["+cl.Label+"]: "+cl.Src] = true
			continue
		}
		t := fc.evalClause(env, cl)
		fc.oblige(st, "call.requires", ct.Key+"."+cl.Label, site, t, cl.Src)
		fc.S.Assume(Implies(st.PC, t), "precondition established")
	}
	pre := st.clone()
	// havoc the write set
	var ws map[string]HeapVar
	if callee != nil && len(callee.Blocks) > 0 && ct.Trusted == "" {
		ws = fc.E.fnWrites(fc, callee, 0)
	} else {
		ws = map[string]HeapVar{}
		for _, n := range ct.ModAll {
			if hv, ok := fc.E.heapByName(fc, ct.PkgPath, n); ok {
				ws[hv.Name] = hv
			} else {
				fc.unsup("contract %s: unknown heap %q in modifies-all", ct.Key, n)
			}
		}
		ws[nextVar.Name] = nextVar
	}
	for _, n := range sortedHeapNames(ws) {
		hv := ws[n]
		if hv.Name == "$next" {
			old := fc.heapGet(st, hv)
			nw := fc.S.Fresh("$next.call", SInt)
			fc.S.Assume(app(SBool, ">=", nw, old), "allocation counter grows")
			st.Heap[hv.Name] = nw
			continue
		}
		if strings.HasPrefix(hv.Name, "$seen.") {
			continue
		}
		st.Heap[hv.Name] = fc.S.Fresh(hv.Name+".call", hv.Sort)
	}
	// frame from modifies clauses
	fc.assumeFrames(st, pre, env, ct, ws)
	// results
	var res []TVal
	var vals []Val
	for i, t := range resTypes {
		v := fc.S.Fresh("res."+calleeShort(ct.Key), fc.TE.SortOf(t))
		fc.assumeWF(st, v, t, "result")
		res = append(res, TVal{T: v, Ty: t})
		vals = append(vals, tv(v))
		if sig != nil && sig.Results().At(i).Name() != "" {
			env.Vars[sig.Results().At(i).Name()] = TVal{T: v, Ty: t}
		}
	}
	post := *env
	post.Cur = st
	post.Old = pre
	post.Results = res
	fc.applyGhostSets(ct, &post, st)
	for _, cl := range ct.Ensures {
		var t Term
		skipped := false
		func() {
			defer func() {
				if r := recover(); r != nil {
					// a clause about the callee's own local variables means nothing to a caller: it learns less
					if u, ok := r.(unsupported); ok && strings.Contains(u.msg, "unknown identifier") {
						skipped = true
						return
					}
					panic(r)
				}
			}()
			t = fc.evalClause(&post, cl)
		}()
		if skipped {
			continue
		}
		fc.S.Assume(Implies(st.PC, t), "postcondition of "+ct.Key+" ["+cl.Label+"]")
	}
	switch len(vals) {
	case 0:
		return Val{}
	case 1:
		return vals[0]
	}
	return Val{Tup: vals}
}

func calleeShort(k string) string {
	if i := strings.LastIndex(k, "."); i >= 0 {
		return k[i+1:]
	}
	return k
}

// modLocs evaluates the modifies clauses of ct in state pre and returns, per
// heap variable, the references whose cells may change.
func (fc *FnCtx) modLocs(pre *State, env *SpecEnv, ct *Contract) (map[string][]Term, map[string]bool) {
	whole := map[string]bool{}
	locs := fc.locsOfExprs(pre, env, ct.Modifies, ct.ModSrc, ct.Pos)
	for _, n := range ct.ModAll {
		if hv, ok := fc.E.heapByName(fc, ct.PkgPath, n); ok {
			whole[hv.Name] = true
		}
	}
	return locs, whole
}

// locsOfExprs evaluates location expressions (x.f, elems(s), entries(m)) in
// state pre: per heap variable, the references whose cells may change.
func (fc *FnCtx) locsOfExprs(pre *State, env *SpecEnv, exprs []SExpr, srcs []string, pos string) map[string][]Term {
	locs := map[string][]Term{}
	penv := *env
	penv.Cur = pre
	ct := &Contract{Modifies: exprs, ModSrc: srcs, Pos: pos}
	for i, m := range ct.Modifies {
		var v TVal
		func() {
			defer func() {
				if r := recover(); r != nil {
					if se, ok := r.(specErr); ok {
						panic(unsupported{fmt.Sprintf("%s: modifies %q: %s", ct.Pos, ct.ModSrc[i], se.msg)})
					}
					panic(r)
				}
			}()
			if c, ok := m.(SCall); ok && (c.Fun == "elems" || c.Fun == "entries") && len(c.Args) == 1 {
				x := penv.eval(c.Args[0])
				switch t := x.Ty.Underlying().(type) {
				case *types.Slice:
					hv := fc.TE.ElemHeap(t.Elem())
					locs[hv.Name] = append(locs[hv.Name], app(SInt, "sl_arr", x.T))
				case *types.Map:
					dh, vh, _ := fc.mapHeaps(x.Ty)
					locs[dh.Name] = append(locs[dh.Name], x.T)
					locs[vh.Name] = append(locs[vh.Name], x.T)
				default:
					penv.fail("elems/entries of %s", x.Ty)
				}
				return
			}
			v = penv.eval(m)
			if v.P == nil {
				penv.fail("not a location")
			}
			switch v.P.Root {
			case RField:
				hv := fc.TE.FieldHeap(v.P.St, v.P.Field)
				locs[hv.Name] = append(locs[hv.Name], v.P.Ref)
			case RCell:
				hv := fc.TE.CellHeap(v.P.Elem)
				locs[hv.Name] = append(locs[hv.Name], v.P.Ref)
			case RElem:
				hv := fc.TE.ElemHeap(v.P.Elem)
				locs[hv.Name] = append(locs[hv.Name], v.P.Ref)
			}
		}()
	}
	return locs
}

func (fc *FnCtx) frameFormula(pre, post *State, hv HeapVar, refs []Term) Term {
	before := fc.heapGet(pre, hv)
	after := fc.heapGet(post, hv)
	if before.S == after.S {
		return TTrue
	}
	if !strings.HasPrefix(hv.Sort, "(Array Int") {
		return TTrue
	}
	var conds []string
	for _, r := range refs {
		conds = append(conds, fmt.Sprintf("(not (= r!f %s))", r.S))
	}
	conds = append(conds, "(< 0 r!f)", fmt.Sprintf("(< r!f %s)", fc.heapGet(pre, nextVar).S))
	return Term{fmt.Sprintf("(forall ((r!f Int)) (! (=> (and %s) (= (select %s r!f) (select %s r!f))) :pattern ((select %s r!f))))", strings.Join(conds, " "), after.S, before.S, after.S), SBool}
}

func (fc *FnCtx) assumeFrames(st, pre *State, env *SpecEnv, ct *Contract, ws map[string]HeapVar) {
	if len(ct.Modifies) == 0 && len(ct.ModAll) == 0 && !ct.hasFrame() {
		// no modifies clause: nothing is known beyond the write set
		return
	}
	locs, whole := fc.modLocs(pre, env, ct)
	for _, n := range sortedHeapNames(ws) {
		hv := ws[n]
		if whole[n] || hv.Kind == HGhost || hv.Kind == HGlobal {
			continue
		}
		f := fc.frameFormula(pre, st, hv, locs[n])
		fc.S.Assume(Implies(st.PC, f), "frame of "+ct.Key+" on "+n)
	}
}

func (ct *Contract) hasFrame() bool { return ct.Opts["frame"] != "" }

// inline executes an in-module callee without a contract in place.
func (fc *FnCtx) inline(st *State, callee *ssa.Function, args []Val, fv *FnVal, site string) Val {
	fc.notes.Inlined[fullName(callee)] = true
	sub := &FnCtx{E: fc.E, Fn: callee, S: fc.S, TE: fc.TE, vals: map[ssa.Value]Val{}, top: fc.top, depth: fc.depth + 1, notes: fc.notes, site: site, held: fc.held}
	for i, p := range callee.Params {
		if i < len(args) {
			sub.vals[p] = args[i]
		}
	}
	if fv != nil {
		for i, b := range callee.FreeVars {
			if i < len(fv.Bindings) {
				sub.vals[b] = fv.Bindings[i]
			}
		}
	}
	exit, res := sub.run(st)
	if exit == nil {
		st.PC = TFalse
		return Val{}
	}
	st.Heap = exit.Heap
	st.PC = exit.PC
	switch len(res) {
	case 0:
		return Val{}
	case 1:
		return res[0]
	}
	return Val{Tup: res}
}

// ---------------------------------------------------------------------------
// Builtins

func (fc *FnCtx) builtin(st *State, b *ssa.Builtin, c *ssa.CallCommon, in ssa.Instruction, site string) Val {
	switch b.Name() {
	case "len":
		v := fc.term(c.Args[0])
		switch t := c.Args[0].Type().Underlying().(type) {
		case *types.Slice:
			return tv(fc.sliceLen(v))
		case *types.Map:
			dh, _, _ := fc.mapHeaps(c.Args[0].Type())
			dom := Select(fc.heapGet(st, dh), v)
			fc.TE.G.DeclareFun(cardFn(dom.Sort), []string{dom.Sort}, SInt)
			r := fc.S.Define("len", Ite(Eq(v, IntLit(0)), IntLit(0), app(SInt, cardFn(dom.Sort), dom)))
			fc.S.Assume(Implies(st.PC, app(SBool, ">=", r, IntLit(0))), "len >= 0")
			return tv(fc.fromInt(r))
		case *types.Basic:
			return tv(fc.E.strLen(fc.TE, v))
		default:
			fc.unsup("len of %s", t)
		}
	case "cap":
		return tv(fc.fromInt(app(SInt, "sl_cap", fc.term(c.Args[0]))))
	case "append":
		return fc.appendOp(st, c, in, site)
	case "delete":
		fc.mapDelete(st, fc.term(c.Args[0]), fc.term(c.Args[1]), c.Args[0].Type())
		return Val{}
	case "panic":
		fc.oblige(st, "no-panic", "explicit", site, TFalse, "explicit panic is unreachable")
		st.PC = TFalse
		return Val{}
	case "min", "max":
		a, bb := fc.term(c.Args[0]), fc.term(c.Args[1])
		lt := fc.binop(st, tokenLSS, a, bb, c.Args[0].Type(), in)
		if b.Name() == "min" {
			return tv(Ite(lt, a, bb))
		}
		return tv(Ite(lt, bb, a))
	case "print", "println":
		return Val{}
	case "recover":
		return tv(Term{"ifc_nil", SIfc})
	case "copy":
		fc.unsup("builtin copy")
	}
	fc.unsup("builtin %s", b.Name())
	return Val{}
}

// appendOp models append(s, xs...) on the slice memory model.
func (fc *FnCtx) appendOp(st *State, c *ssa.CallCommon, in ssa.Instruction, site string) Val {
	sl := c.Args[0].Type().Underlying().(*types.Slice)
	et := sl.Elem()
	s := fc.term(c.Args[0])
	if len(c.Args) == 1 {
		return tv(s)
	}
	if bt, ok := c.Args[1].Type().Underlying().(*types.Basic); ok && bt.Info()&types.IsString != 0 {
		fc.unsup("append of string to []byte")
	}
	t := fc.term(c.Args[1]) // always a slice in SSA form
	hv := fc.TE.ElemHeap(et)
	E := fc.heapGet(st, hv)
	sArr, sOff, sLen, sCap := app(SInt, "sl_arr", s), app(SInt, "sl_off", s), app(SInt, "sl_len", s), app(SInt, "sl_cap", s)
	tArr, tOff, tLen := app(SInt, "sl_arr", t), app(SInt, "sl_off", t), app(SInt, "sl_len", t)
	newLen := fc.S.Define("applen", app(SInt, "+", sLen, tLen))
	fits := fc.S.Define("appfits", app(SBool, "<=", newLen, sCap))
	// destination array and offset
	fresh := fc.alloc(st)
	dArr := fc.S.Define("apparr", Ite(fits, sArr, fresh))
	dOff := fc.S.Define("appoff", Ite(fits, sOff, IntLit(0)))
	newCap := fc.S.Fresh("appcap", SInt)
	fc.S.Assume(Implies(st.PC, And(app(SBool, ">=", newCap, newLen), Implies(fits, Eq(newCap, sCap)))), "capacity after append")
	// new contents D of the destination array: old source contents read from E (memmove semantics)
	inner := arrayRange(hv.Sort)
	D := fc.S.Fresh("appdata", inner)
	srcS := Select(E, sArr)
	srcT := Select(E, tArr)
	k := Term{"k!a", SInt}
	atD := fc.TE.At(D, dOff, k)
	atS := fc.TE.At(srcS, sOff, k)
	atT := fc.TE.At(srcT, tOff, app(SInt, "-", k, sLen))
	q1 := fmt.Sprintf("(forall ((k!a Int)) (! (=> (and (<= 0 k!a) (< k!a %s)) (= %s %s)) :pattern (%s) :pattern (%s)))", sLen.S, atD.S, atS.S, atD.S, atS.S)
	q2 := fmt.Sprintf("(forall ((k!a Int)) (! (=> (and (<= %s k!a) (< k!a %s)) (= %s %s)) :pattern (%s)))", sLen.S, newLen.S, atD.S, atT.S, atD.S)
	q3 := fmt.Sprintf("(forall ((j!a Int)) (! (=> (or (< j!a %s) (>= j!a (+ %s %s))) (= (select %s j!a) (select %s j!a))) :pattern ((select %s j!a))))", dOff.S, dOff.S, newLen.S, D.S, srcS.S, D.S)
	fc.S.Assume(Implies(st.PC, Term{q1, SBool}), "append: the old elements are kept")
	fc.S.Assume(Implies(st.PC, Term{q2, SBool}), "append: the new elements follow (read before any write, as memmove)")
	fc.S.Assume(Implies(And(st.PC, fits), Term{q3, SBool}), "append in place: elements outside the written window are untouched")
	fc.heapSet(st, hv, Store(E, dArr, D))
	r := app("Slice", "mk_slice", dArr, dOff, newLen, newCap)
	return tv(fc.S.Define("append", r))
}

// ---------------------------------------------------------------------------
// Monitors

func (fc *FnCtx) monitorOf(p *Ptr) (*MonitorDecl, string) {
	if p == nil || p.Root != RField {
		return nil, ""
	}
	n, ok := types.Unalias(p.St).(*types.Named)
	if !ok || n.Obj().Pkg() == nil {
		return nil, ""
	}
	fname := p.St.Underlying().(*types.Struct).Field(p.Field).Name()
	for _, m := range fc.E.CS.Monitors {
		if m.PkgPath == n.Obj().Pkg().Path() && m.Type == n.Obj().Name() && m.Field == fname {
			return m, n.Obj().Name() + "." + fname
		}
	}
	return nil, n.Obj().Name() + "." + fname
}

func (fc *FnCtx) monitorInv(st *State, m *MonitorDecl, self Term, selfTy types.Type) Term {
	if m.Inv == nil {
		return TTrue
	}
	env := fc.specEnv(st)
	env.PkgPath = m.PkgPath
	env.Vars = map[string]TVal{m.Self: {T: self, Ty: selfTy}}
	env.Macros = map[string]SExpr{}
	var t Term
	func() {
		defer func() {
			if r := recover(); r != nil {
				if se, ok := r.(specErr); ok {
					panic(unsupported{fmt.Sprintf("monitor %s.%s invariant: %s", m.Type, m.Field, se.msg)})
				}
				panic(r)
			}
		}()
		t = env.boolT(m.Inv)
	}()
	return fc.S.Define("inv."+m.Type, t)
}

func (fc *FnCtx) lockOp(st *State, op string, arg Val, site string) {
	m, name := fc.monitorOf(arg.P)
	top := fc.top
	if top.held == nil {
		top.held = map[string]bool{}
	}
	hv := heldVar(name)
	if op == "RLock" || op == "RUnlock" {
		hv = rheldVar(name)
	}
	switch op {
	case "Lock", "RLock":
		if m != nil {
			fc.lockOrder(st, m.Level, op+" "+name, site)
		}
		top.held[name] = true
		st.Heap[hv.Name] = TTrue
		if m != nil {
			selfTy := types.NewPointer(arg.P.St)
			inv := fc.monitorInv(st, m, arg.P.Ref, selfTy)
			fc.S.Assume(Implies(st.PC, inv), "monitor invariant of "+name+" at "+op)
			top.atLock = st.clone()
		}
	case "Unlock", "RUnlock":
		if m != nil {
			selfTy := types.NewPointer(arg.P.St)
			env := fc.specEnv(st)
			env.PkgPath = m.PkgPath
			env.Vars = map[string]TVal{m.Self: {T: arg.P.Ref, Ty: selfTy}}
			env.Macros = map[string]SExpr{}
			parts := fc.evalClauseParts(env, &Clause{Label: name, Expr: m.Inv, Src: m.InvSrc, Pos: "monitor " + name})
			for i, t := range parts {
				lab := name
				if len(parts) > 1 {
					lab = fmt.Sprintf("%s/%d", name, i+1)
				}
				fc.oblige(st, "monitor-inv", lab, site, t, fmt.Sprintf("invariant of %s re-established at %s (conjunct %d of %s)", name, op, i+1, m.InvSrc))
				fc.S.Assume(Implies(st.PC, t), "monitor invariant conjunct (obligation above)")
			}
		}
		delete(top.held, name)
		st.Heap[hv.Name] = TFalse
	}
}
