package main

import (
	"fmt"
	"go/types"
	"sort"
	"strings"

	"golang.org/x/tools/go/ssa"
)

// Lock discipline (C20): lock levels (no mutex cycle), guarded-by (no access
// to an annotated field without its mutex), both as obligations generated
// during symbolic execution from path-sensitive "held" flags.

func heldVar(name string) HeapVar  { return HeapVar{"$held." + name, SBool, HGhost} }
func rheldVar(name string) HeapVar { return HeapVar{"$rheld." + name, SBool, HGhost} }

func (e *Engine) monitorByName(name string) *MonitorDecl {
	for _, m := range e.CS.Monitors {
		if m.Type+"."+m.Field == name {
			return m
		}
	}
	return nil
}

// guardsOf returns the monitors guarding struct field T.f. A monitor of another package may
// list the field as pkgname.T.f: objects of that type are then owned by either monitor (the
// syncer owns cluster.Node objects while they are pending, the routing table afterwards), and an
// access needs one of them held.
func (e *Engine) guardsOf(st types.Type, field int) []*MonitorDecl {
	n, ok := types.Unalias(st).(*types.Named)
	if !ok || n.Obj().Pkg() == nil {
		return nil
	}
	key := n.Obj().Name() + "." + st.Underlying().(*types.Struct).Field(field).Name()
	qkey := n.Obj().Pkg().Name() + "." + key
	var ms []*MonitorDecl
	for _, m := range e.CS.Monitors {
		for _, g := range m.Guards {
			if (g == key && m.PkgPath == n.Obj().Pkg().Path()) || (g == qkey && m.PkgPath != n.Obj().Pkg().Path()) {
				ms = append(ms, m)
			}
		}
	}
	return ms
}

func (fc *FnCtx) guardCheck(st *State, p *Ptr, write bool, in ssa.Instruction) {
	if p == nil || p.Root != RField || fc.S.Quiet {
		return
	}
	ms := fc.E.guardsOf(p.St, p.Field)
	if len(ms) == 0 {
		return
	}
	// objects allocated by this very function are not shared yet
	if fc.top.freshRefs[p.Ref.S] {
		return
	}
	var alts []Term
	var names []string
	for _, m := range ms {
		name := m.Type + "." + m.Field
		names = append(names, name)
		h := fc.heapGet(st, heldVar(name))
		if write {
			alts = append(alts, h)
		} else {
			alts = append(alts, Or(h, fc.heapGet(st, rheldVar(name))))
		}
	}
	cond := Or(alts...)
	kind := "write"
	if !write {
		kind = "read"
	}
	if cond.S == "true" {
		return
	}
	fname := p.St.Underlying().(*types.Struct).Field(p.Field).Name()
	key := fmt.Sprintf("%s.%s/%s/%s", fc.TE.Struct(p.St).Key, fname, kind, cond.S)
	if fc.top.guardSeen[key] {
		return
	}
	fc.top.guardSeen[key] = true
	fc.oblige(st, "guarded-by", fmt.Sprintf("%s.%s %s", types.Unalias(p.St).(*types.Named).Obj().Name(), fname, kind), siteOf(fc, in),
		cond, fmt.Sprintf("%s of %s only with %s held", kind, fname, strings.Join(names, " or ")))
}

// lockOrder: acquiring a monitor of level L requires that no monitor of level >= L is held.
func (fc *FnCtx) lockOrder(st *State, level int, what, site string) {
	var conds []Term
	var names []string
	for _, m := range fc.E.CS.Monitors {
		if m.Level >= level {
			n := m.Type + "." + m.Field
			c := Not(Or(fc.heapGet(st, heldVar(n)), fc.heapGet(st, rheldVar(n))))
			if c.S != "true" {
				conds = append(conds, c)
				names = append(names, n)
			}
		}
	}
	if len(conds) == 0 {
		return
	}
	fc.oblige(st, "lock-order", what, site, And(conds...), fmt.Sprintf("%s (level %d) only while holding no mutex of the same or a higher level (%s)", what, level, strings.Join(names, ", ")))
}

// acqLevel: the lowest level of any monitor a function may acquire
// (transitively); 0 = acquires nothing annotated.
func (e *Engine) acqLevel(fn *ssa.Function, depth int) int {
	if fn == nil {
		return 0
	}
	if l, ok := e.acq[fn]; ok {
		return l
	}
	if depth > 12 || e.acqBusy[fn] {
		return 0
	}
	e.acqBusy[fn] = true
	defer delete(e.acqBusy, fn)
	best := 0
	upd := func(l int) {
		if l > 0 && (best == 0 || l < best) {
			best = l
		}
	}
	if ct := e.contractFor(fn); ct != nil {
		for _, a := range ct.Acquires {
			var l int
			fmt.Sscanf(a, "%d", &l)
			upd(l)
		}
	}
	for _, b := range fn.Blocks {
		for _, in := range b.Instrs {
			ci, ok := in.(ssa.CallInstruction)
			if !ok {
				continue
			}
			if _, isGo := in.(*ssa.Go); isGo {
				continue
			}
			c := ci.Common()
			upd(e.callAcqLevel(fn, c, depth))
		}
	}
	for _, a := range fn.AnonFuncs {
		_ = a // closures are accounted for where they are called
	}
	e.acq[fn] = best
	return best
}

func (e *Engine) callAcqLevel(caller *ssa.Function, c *ssa.CallCommon, depth int) int {
	if c.IsInvoke() {
		if ct := e.ifaceContract(c.Value.Type(), c.Method.Name()); ct != nil {
			best := 0
			for _, a := range ct.Acquires {
				var l int
				fmt.Sscanf(a, "%d", &l)
				if l > 0 && (best == 0 || l < best) {
					best = l
				}
			}
			return best
		}
		return 0
	}
	callee := c.StaticCallee()
	if callee == nil {
		if mc, ok := c.Value.(*ssa.MakeClosure); ok {
			return e.acqLevel(mc.Fn.(*ssa.Function), depth+1)
		}
		// function value: the dyncall contract of the caller
		if ct := e.contractFor(caller); ct != nil {
			if key, ok := ct.Opts["dyncall"]; ok {
				if dc := e.CS.ByKey[ct.PkgPath+"."+key]; dc != nil {
					best := 0
					for _, a := range dc.Acquires {
						var l int
						fmt.Sscanf(a, "%d", &l)
						if l > 0 && (best == 0 || l < best) {
							best = l
						}
					}
					return best
				}
			}
		}
		return 0
	}
	name := fullName(callee)
	if strings.HasPrefix(name, "sync.(*Mutex).Lock") || strings.HasPrefix(name, "sync.(*RWMutex).Lock") || strings.HasPrefix(name, "sync.(*RWMutex).RLock") {
		// which monitor? the receiver is a FieldAddr
		if len(c.Args) > 0 {
			if fa, ok := c.Args[0].(*ssa.FieldAddr); ok {
				st := fa.X.Type().Underlying().(*types.Pointer).Elem()
				if n, ok := types.Unalias(st).(*types.Named); ok {
					fname := st.Underlying().(*types.Struct).Field(fa.Field).Name()
					if m := e.monitorByName(n.Obj().Name() + "." + fname); m != nil {
						return m.Level
					}
				}
			}
		}
		return 0
	}
	if len(callee.Blocks) == 0 {
		return 0
	}
	return e.acqLevel(callee, depth+1)
}

// callOrder: a call to something that may acquire level L needs no mutex of level >= L held.
func (fc *FnCtx) callOrder(st *State, c *ssa.CallCommon, site string) {
	if fc.S.Quiet {
		return
	}
	l := fc.E.callAcqLevel(fc.top.Fn, c, 0)
	if l == 0 {
		return
	}
	fc.lockOrder(st, l, "call "+calleeName(c), site)
}

// assumeEntryLocks: a function that may acquire level L is only called with
// no mutex of level >= L held (checked at every call site under contract).
func (fc *FnCtx) assumeEntryLocks(st *State) {
	l := fc.E.acqLevel(fc.Fn, 0)
	if l == 0 {
		return
	}
	var ms []*MonitorDecl
	for _, m := range fc.E.CS.Monitors {
		if m.Level >= l {
			ms = append(ms, m)
		}
	}
	sort.Slice(ms, func(i, j int) bool { return ms[i].Level < ms[j].Level })
	for _, m := range ms {
		n := m.Type + "." + m.Field
		fc.S.Assume(Not(Or(fc.heapGet(st, heldVar(n)), fc.heapGet(st, rheldVar(n)))), fmt.Sprintf("entry: %s not held (function acquires level %d; checked at call sites)", n, l))
	}
}
