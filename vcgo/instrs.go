package main

import (
	"fmt"
	"go/token"
	"go/types"
	"math"

	"golang.org/x/tools/go/ssa"
)

func mathFloat64bits(f float64) uint64 { return math.Float64bits(f) }

func (fc *FnCtx) execInstr(in ssa.Instruction, st *State) {
	switch x := in.(type) {
	case *ssa.DebugRef:
		return
	case *ssa.Alloc:
		fc.vals[x] = fc.doAlloc(st, x.Type().(*types.Pointer).Elem())
	case *ssa.FieldAddr:
		fc.vals[x] = fc.fieldAddr(st, x)
	case *ssa.Field:
		v := fc.term(x.X)
		fc.vals[x] = tv(fc.TE.FieldOf(x.X.Type(), v, x.Field))
	case *ssa.IndexAddr:
		fc.vals[x] = fc.indexAddr(st, x)
	case *ssa.Index:
		fc.vals[x] = fc.index(st, x)
	case *ssa.UnOp:
		fc.vals[x] = fc.unop(st, x)
	case *ssa.Store:
		fc.store(st, x.Addr, x.Val)
	case *ssa.BinOp:
		fc.vals[x] = tv(fc.S.Define(x.Name(), fc.binop(st, x.Op, fc.term(x.X), fc.term(x.Y), x.X.Type(), x)))
	case *ssa.Call:
		fc.vals[x] = fc.doCall(st, &x.Call, x, siteOf(fc, x))
	case *ssa.MakeMap:
		r := fc.alloc(st)
		mt := x.Type().Underlying().(*types.Map)
		dh := fc.TE.MapDomHeap(mt)
		fc.heapSet(st, dh, Store(fc.heapGet(st, dh), r, Term{fmt.Sprintf("((as const %s) false)", arrayRange(dh.Sort)), arrayRange(dh.Sort)}))
		fc.TE.G.DeclareFun(cardFn(arrayRange(dh.Sort)), []string{arrayRange(dh.Sort)}, SInt)
		fc.S.Assume(Implies(st.PC, Eq(app(SInt, cardFn(arrayRange(dh.Sort)), Select(fc.heapGet(st, dh), r)), IntLit(0))), "card of empty map")
		fc.vals[x] = tv(r)
	case *ssa.MakeSlice:
		fc.vals[x] = fc.makeSlice(st, x)
	case *ssa.MakeInterface:
		v := fc.val(x.X)
		t := v.T
		if v.P != nil && t.IsZero() {
			fc.unsup("interior pointer converted to interface")
		}
		bx := fc.TE.Box(x.X.Type(), t)
		if fc.top.boxed == nil {
			fc.top.boxed = map[string]boxedInfo{}
		}
		fc.top.boxed[bx.S] = boxedInfo{typ: x.X.Type(), val: v}
		fc.vals[x] = tv(bx)
	case *ssa.MakeClosure:
		fn := x.Fn.(*ssa.Function)
		fv := &FnVal{Fn: fn}
		for _, b := range x.Bindings {
			fv.Bindings = append(fv.Bindings, fc.val(b))
		}
		id := fc.S.Fresh("closure."+fn.Name(), SInt)
		fc.S.Assume(app(SBool, ">", id, IntLit(0)), "closure value is non-nil")
		fc.top.E.closures[id.S] = fv
		fc.describeClosure(id, fn, fv.Bindings)
		fc.vals[x] = Val{Fn: fv, T: id}
	case *ssa.Lookup:
		fc.vals[x] = fc.lookup(st, x)
	case *ssa.MapUpdate:
		fc.mapUpdate(st, x)
	case *ssa.Slice:
		fc.vals[x] = fc.sliceOp(st, x)
	case *ssa.Range:
		fc.vals[x] = fc.rangeStart(st, x)
	case *ssa.Next:
		fc.vals[x] = fc.rangeNext(st, x)
	case *ssa.Extract:
		t := fc.val(x.Tuple)
		if t.Tup == nil {
			fc.unsup("extract from non-tuple %s", x.Tuple.Name())
		}
		fc.vals[x] = t.Tup[x.Index]
	case *ssa.TypeAssert:
		fc.vals[x] = fc.typeAssert(st, x)
	case *ssa.ChangeType:
		fc.vals[x] = fc.val(x.X)
	case *ssa.ChangeInterface:
		fc.vals[x] = fc.val(x.X)
	case *ssa.Convert:
		fc.vals[x] = fc.convert(st, x)
	case *ssa.If, *ssa.Jump:
		return
	case *ssa.Return:
		var vs []Val
		for _, r := range x.Results {
			vs = append(vs, fc.val(r))
		}
		fc.rets = append(fc.rets, retRec{st.clone(), vs})
	case *ssa.Defer:
		if fc.inLoop(x.Block()) {
			fc.unsup("defer inside a loop")
		}
		fc.defers = append(fc.defers, deferRec{instr: x, guard: st.PC})
	case *ssa.RunDefers:
		fc.runDefers(st)
	case *ssa.Panic:
		if !(fc.top.C != nil && fc.top.C.MayPanic) {
			fc.oblige(st, "no-panic", "explicit", siteOf(fc, x), TFalse, "explicit panic is unreachable")
		}
		// deferred calls run on the panic path too, but nothing is returned
		st.PC = TFalse
	case *ssa.Go:
		fc.notes.Assumed["goroutine body of "+x.Call.String()+" is not executed at the spawn point"] = true
		fc.spawn(st, x)
	case *ssa.Send, *ssa.Select, *ssa.MakeChan:
		fc.unsup("channel operation %s", in)
	default:
		fc.unsup("instruction %T: %s", in, in)
	}
}

func (fc *FnCtx) inLoop(b *ssa.BasicBlock) bool {
	for _, li := range fc.loops {
		if li.Blocks[b] {
			return true
		}
	}
	return false
}

func siteOf(fc *FnCtx, in ssa.Instruction) string {
	// a stable site name: block comment + ordinal of the instruction kind within the function
	n := 0
	kind := fmt.Sprintf("%T", in)
	for _, b := range in.Parent().Blocks {
		for _, i2 := range b.Instrs {
			if fmt.Sprintf("%T", i2) == kind {
				if c1, ok := i2.(*ssa.Call); ok {
					c0 := in.(*ssa.Call)
					if calleeName(&c1.Call) != calleeName(&c0.Call) {
						continue
					}
				}
				n++
				if i2 == in {
					s := ""
					if c, ok := in.(*ssa.Call); ok {
						s = calleeName(&c.Call)
					} else {
						s = kind[5:]
					}
					if fc.depth > 0 {
						s = fc.site + ">" + s
					}
					return fmt.Sprintf("%s.%d", s, n)
				}
			}
		}
	}
	return kind
}

func calleeName(c *ssa.CallCommon) string {
	if c.IsInvoke() {
		return c.Method.Name()
	}
	if f := c.StaticCallee(); f != nil {
		return f.Name()
	}
	if b, ok := c.Value.(*ssa.Builtin); ok {
		return b.Name()
	}
	return "dyn"
}

func (fc *FnCtx) doAlloc(st *State, t types.Type) Val {
	r := fc.alloc(st)
	if at, ok := t.Underlying().(*types.Array); ok {
		// an array object is a backing array of the element heap
		hv := fc.TE.ElemHeap(at.Elem())
		inner := arrayRange(hv.Sort)
		fc.heapSet(st, hv, Store(fc.heapGet(st, hv), r, Term{fmt.Sprintf("((as const %s) %s)", inner, fc.TE.Zero(at.Elem()).S), inner}))
		return tv(r)
	}
	if isNamed(t, "bytes", "Buffer") {
		// a new (zero) buffer is empty
		fc.heapSet(st, bufLenVar, IntLit(0))
	}
	if isStruct(t) {
		si := fc.TE.Struct(t)
		if !si.Opaque {
			for i, f := range si.Fields {
				if _, imm := fc.E.immFn(fc.TE, t, i); imm {
					continue
				}
				hv := fc.TE.FieldHeap(t, i)
				z := IntLit(0)
				if !f.Opaque {
					z = fc.TE.Zero(f.Type)
				}
				fc.heapSet(st, hv, Store(fc.heapGet(st, hv), r, z))
			}
		}
		return tv(r)
	}
	hv := fc.TE.CellHeap(t)
	fc.heapSet(st, hv, Store(fc.heapGet(st, hv), r, fc.TE.Zero(t)))
	return Val{T: r, P: &Ptr{Root: RCell, Ref: r, Elem: t}}
}

func (fc *FnCtx) nilCheck(st *State, v ssa.Value, ref Term, in ssa.Instruction) {
	top := fc.top
	if top.nonnil == nil {
		top.nonnil = map[string]bool{}
	}
	if top.nonnil[ref.S] {
		return
	}
	top.nonnil[ref.S] = true
	switch x := v.(type) {
	case *ssa.Alloc:
		return
	case *ssa.Parameter:
		if fc.Fn.Signature.Recv() != nil && len(fc.Fn.Params) > 0 && fc.Fn.Params[0] == x {
			return // receivers are assumed non-nil (listed in the trusted base)
		}
	case *ssa.FreeVar:
		return
	}
	fc.oblige(st, "no-panic", "nil-deref", siteOf(fc, in)+"."+v.Name(), Not(Eq(ref, IntLit(0))), "pointer "+v.Name()+" is not nil")
	fc.S.Assume(Implies(st.PC, Not(Eq(ref, IntLit(0)))), "continues only if not nil")
}

func (fc *FnCtx) fieldAddr(st *State, x *ssa.FieldAddr) Val {
	stT := x.X.Type().Underlying().(*types.Pointer).Elem()
	base := fc.val(x.X)
	ft := stT.Underlying().(*types.Struct).Field(x.Field).Type()
	_ = ft
	if base.P != nil && !(base.P.Root == RCell && !base.T.IsZero() && isStruct(base.P.Elem) && false) {
		// interior pointer: extend the path
		np := *base.P
		np.Path = append(append([]PathStep{}, base.P.Path...), PathStep{stT, x.Field})
		return Val{P: &np}
	}
	fc.nilCheck(st, x.X, base.T, x)
	return Val{P: &Ptr{Root: RField, Ref: base.T, St: stT, Field: x.Field}}
}

func (fc *FnCtx) indexAddr(st *State, x *ssa.IndexAddr) Val {
	idx := fc.term(x.Index)
	switch t := x.X.Type().Underlying().(type) {
	case *types.Slice:
		s := fc.term(x.X)
		fc.oblige(st, "no-panic", "index", siteOf(fc, x), And(app(SBool, "<=", fc.TE.IntLit(0), idx), app(SBool, "<", idx, fc.sliceLen(s))), fmt.Sprintf("index %s in range of %s", x.Index.Name(), x.X.Name()))
		fc.S.Assume(Implies(st.PC, And(app(SBool, "<=", fc.TE.IntLit(0), idx), app(SBool, "<", idx, fc.sliceLen(s)))), "continues only if in range")
		return Val{P: &Ptr{Root: RElem, Ref: app(SInt, "sl_arr", s), Off: app(SInt, "sl_off", s), Idx: fc.toInt(idx), Elem: t.Elem()}}
	case *types.Pointer:
		at, ok := t.Elem().Underlying().(*types.Array)
		if !ok {
			fc.unsup("IndexAddr on %s", x.X.Type())
		}
		ref := fc.term(x.X)
		n := fc.TE.IntLit(at.Len())
		fc.oblige(st, "no-panic", "index", siteOf(fc, x), And(app(SBool, "<=", fc.TE.IntLit(0), idx), app(SBool, "<", idx, n)), "array index in range")
		return Val{P: &Ptr{Root: RElem, Ref: ref, Off: IntLit(0), Idx: fc.toInt(idx), Elem: at.Elem()}}
	}
	fc.unsup("IndexAddr on %s", x.X.Type())
	return Val{}
}

// sliceLen returns len(s) in the integer sort of the mode.
func (fc *FnCtx) sliceLen(s Term) Term {
	l := app(SInt, "sl_len", s)
	return fc.fromInt(l)
}

func (fc *FnCtx) toInt(t Term) Term {
	if t.Sort == SBV64 {
		return app(SInt, "bv2int_s", t) // only used in BV mode for indices; declared on demand
	}
	return t
}

func (fc *FnCtx) fromInt(t Term) Term {
	if fc.TE.BV {
		return app(SBV64, "(_ int2bv 64)", t)
	}
	return t
}

func (fc *FnCtx) index(st *State, x *ssa.Index) Val {
	fc.unsup("Index on %s", x.X.Type())
	return Val{}
}

func (fc *FnCtx) unop(st *State, x *ssa.UnOp) Val {
	switch x.Op {
	case token.MUL:
		a := fc.val(x.X)
		elem := x.X.Type().Underlying().(*types.Pointer).Elem()
		var t Term
		if a.P != nil {
			fc.guardCheck(st, a.P, false, x)
			t = fc.loadPtr(st, a.P)
		} else if isStruct(elem) {
			fc.nilCheck(st, x.X, a.T, x)
			t = fc.loadStructRef(st, a.T, elem)
		} else {
			// pointer to non-struct held as a plain reference
			fc.nilCheck(st, x.X, a.T, x)
			t = Select(fc.heapGet(st, fc.TE.CellHeap(elem)), a.T)
		}
		t = fc.S.Define(x.Name(), t)
		fc.assumeWF(st, t, elem, "load "+x.Name())
		if fc.E.nonNilField(x.X) {
			fc.S.Assume(Implies(st.PC, Not(isNilTerm(t))), "declared nonnil field")
		}
		if a.P != nil && a.P.Root == RGlobal && len(a.P.Path) == 0 && t.Sort == SIfc && types.Identical(elem, types.Universe.Lookup("error").Type()) {
			// package-level error values (var ErrX = errors.New(...)) are set once at init and never nil
			fc.S.Assume(Implies(st.PC, Not(isNilTerm(t))), "package-level error variable is not nil")
			fc.notes.Assumed["package-level error variables are initialised once and never nil"] = true
		}
		// closures stored in memory: recover the function value if known
		return tv(t)
	case token.NOT:
		return tv(Not(fc.term(x.X)))
	case token.SUB:
		v := fc.term(x.X)
		if isFloatSort(v.Sort) {
			return tv(fc.TE.FOp("neg", v))
		}
		if v.Sort == SBV64 {
			return tv(app(SBV64, "bvneg", v))
		}
		return tv(app(SInt, "-", v))
	case token.ARROW:
		fc.unsup("channel receive")
	}
	fc.unsup("unary %s", x.Op)
	return Val{}
}

func (fc *FnCtx) store(st *State, addr, val ssa.Value) {
	a := fc.val(addr)
	v := fc.val(val)
	if v.P != nil && v.T.IsZero() {
		fc.unsup("storing an interior pointer")
	}
	elem := addr.Type().Underlying().(*types.Pointer).Elem()
	if a.P != nil {
		if len(fc.Fn.Blocks) > 0 {
			fc.guardCheck(st, a.P, true, fc.Fn.Blocks[0].Instrs[0])
		}
		fc.storePtr(st, a.P, v.T)
		return
	}
	if isStruct(elem) {
		fc.storeStructRef(st, a.T, elem, v.T)
		return
	}
	hv := fc.TE.CellHeap(elem)
	fc.heapSet(st, hv, Store(fc.heapGet(st, hv), a.T, v.T))
}

func (fc *FnCtx) binop(st *State, op token.Token, a, b Term, t types.Type, in ssa.Instruction) Term {
	ut := t.Underlying()
	basic, _ := ut.(*types.Basic)
	isF := basic != nil && basic.Info()&types.IsFloat != 0
	isS := basic != nil && basic.Info()&types.IsString != 0
	isI := basic != nil && basic.Info()&types.IsInteger != 0
	isB := basic != nil && basic.Info()&types.IsBoolean != 0
	uns := basic != nil && basic.Info()&types.IsUnsigned != 0
	switch op {
	case token.EQL:
		if isF {
			return fc.TE.FOp("eq", a, b)
		}
		return Eq(a, b)
	case token.NEQ:
		if isF {
			return Not(fc.TE.FOp("eq", a, b))
		}
		return Not(Eq(a, b))
	}
	if isB {
		switch op {
		case token.AND, token.LAND:
			return And(a, b)
		case token.OR, token.LOR:
			return Or(a, b)
		}
	}
	if isF {
		fop := map[token.Token]string{token.ADD: "add", token.SUB: "sub", token.MUL: "mul", token.QUO: "div", token.LSS: "lt", token.LEQ: "leq", token.GTR: "gt", token.GEQ: "geq"}
		if o, ok := fop[op]; ok {
			return fc.TE.FOp(o, a, b)
		}
	}
	if isS {
		switch op {
		case token.ADD:
			return fc.E.strConcat(fc.TE, a, b)
		case token.LSS, token.LEQ, token.GTR, token.GEQ:
			fc.TE.G.DeclareFun("str.lt", []string{SStr, SStr}, SBool)
			switch op {
			case token.LSS:
				return app(SBool, "str.lt", a, b)
			case token.GTR:
				return app(SBool, "str.lt", b, a)
			case token.LEQ:
				return Not(app(SBool, "str.lt", b, a))
			case token.GEQ:
				return Not(app(SBool, "str.lt", a, b))
			}
		}
	}
	if isI && fc.TE.BV {
		switch op {
		case token.ADD:
			return app(SBV64, "bvadd", a, b)
		case token.SUB:
			return app(SBV64, "bvsub", a, b)
		case token.MUL:
			return app(SBV64, "bvmul", a, b)
		case token.QUO, token.REM:
			fc.oblige(st, "no-panic", "div-zero", siteOf(fc, in), Not(Eq(b, fc.TE.IntLit(0))), "divisor is not zero")
			if op == token.QUO {
				if uns {
					return app(SBV64, "bvudiv", a, b)
				}
				return app(SBV64, "bvsdiv", a, b)
			}
			if uns {
				return app(SBV64, "bvurem", a, b)
			}
			return app(SBV64, "bvsrem", a, b)
		case token.LSS:
			return app(SBool, pick(uns, "bvult", "bvslt"), a, b)
		case token.LEQ:
			return app(SBool, pick(uns, "bvule", "bvsle"), a, b)
		case token.GTR:
			return app(SBool, pick(uns, "bvugt", "bvsgt"), a, b)
		case token.GEQ:
			return app(SBool, pick(uns, "bvuge", "bvsge"), a, b)
		case token.AND:
			return app(SBV64, "bvand", a, b)
		case token.OR:
			return app(SBV64, "bvor", a, b)
		case token.XOR:
			return app(SBV64, "bvxor", a, b)
		case token.SHL:
			return app(SBV64, "bvshl", a, b)
		case token.SHR:
			return app(SBV64, pick(uns, "bvlshr", "bvashr"), a, b)
		}
	}
	if isI {
		switch op {
		case token.ADD:
			return app(SInt, "+", a, b)
		case token.SUB:
			return app(SInt, "-", a, b)
		case token.MUL:
			return app(SInt, "*", a, b)
		case token.QUO, token.REM:
			fc.oblige(st, "no-panic", "div-zero", siteOf(fc, in), Not(Eq(b, IntLit(0))), "divisor is not zero")
			fc.S.Assume(Implies(st.PC, Not(Eq(b, IntLit(0)))), "continues only if divisor is not zero")
			// Go truncates toward zero; SMT div/mod are Euclidean.
			if op == token.QUO {
				return goDiv(a, b)
			}
			return goRem(a, b)
		case token.LSS:
			return app(SBool, "<", a, b)
		case token.LEQ:
			return app(SBool, "<=", a, b)
		case token.GTR:
			return app(SBool, ">", a, b)
		case token.GEQ:
			return app(SBool, ">=", a, b)
		}
	}
	fc.unsup("binary %s on %s", op, t)
	return Term{}
}

func pick(c bool, a, b string) string {
	if c {
		return a
	}
	return b
}

// goDiv: truncated division in terms of SMT-LIB's Euclidean div.
func goDiv(a, b Term) Term {
	// for a >= 0: Euclidean div equals truncated division when b > 0, and for b < 0 too (div a b = -(div a -b)).
	// general: ite(a >= 0, div a b, -(div (-a) b))
	return Term{fmt.Sprintf("(ite (>= %s 0) (div %s %s) (- (div (- %s) %s)))", a.S, a.S, b.S, a.S, b.S), SInt}
}

func goRem(a, b Term) Term {
	// a - b*trunc(a/b); for a >= 0 this is mod a |b| = (mod a b)
	return Term{fmt.Sprintf("(ite (>= %s 0) (mod %s %s) (- (mod (- %s) %s)))", a.S, a.S, b.S, a.S, b.S), SInt}
}

func cardFn(setSort string) string { return "card." + sanitize(setSort) }

func (fc *FnCtx) makeSlice(st *State, x *ssa.MakeSlice) Val {
	et := x.Type().Underlying().(*types.Slice).Elem()
	l := fc.toInt(fc.term(x.Len))
	c := fc.toInt(fc.term(x.Cap))
	fc.oblige(st, "no-panic", "makeslice", siteOf(fc, x), And(app(SBool, ">=", l, IntLit(0)), app(SBool, ">=", c, l)), "make: 0 <= len <= cap")
	fc.S.Assume(Implies(st.PC, And(app(SBool, ">=", l, IntLit(0)), app(SBool, ">=", c, l))), "continues only if sizes valid")
	if _, isConst := x.Cap.(*ssa.Const); !isConst && !fc.TE.BV {
		// make panics ("cap out of range") when the requested capacity cannot be allocated: a
		// capacity computed from data (a count read off the wire) must be bounded. Collections
		// already in memory are assumed to hold at most 2^32 elements.
		fc.oblige(st, "no-panic", "makeslice-cap", siteOf(fc, x), app(SBool, "<=", c, IntLit(4294967296)), "make: the capacity is bounded (at most 2^32 elements)")
		fc.S.Assume(Implies(st.PC, app(SBool, "<=", c, IntLit(4294967296))), "continues only if the allocation succeeds")
	}
	arr := fc.alloc(st)
	hv := fc.TE.ElemHeap(et)
	inner := arrayRange(hv.Sort)
	fc.heapSet(st, hv, Store(fc.heapGet(st, hv), arr, Term{fmt.Sprintf("((as const %s) %s)", inner, fc.TE.Zero(et).S), inner}))
	fc.TE.ensureSlice()
	return tv(fc.S.Define(x.Name(), app("Slice", "mk_slice", arr, IntLit(0), l, c)))
}

func (fc *FnCtx) mapHeaps(t types.Type) (HeapVar, HeapVar, *types.Map) {
	mt := t.Underlying().(*types.Map)
	return fc.TE.MapDomHeap(mt), fc.TE.MapValHeap(mt), mt
}

func (fc *FnCtx) mapLookup(st *State, m, k Term, t types.Type) (Term, Term) {
	dh, vh, mt := fc.mapHeaps(t)
	ok := And(Not(Eq(m, IntLit(0))), Select(Select(fc.heapGet(st, dh), m), k))
	raw := Select(Select(fc.heapGet(st, vh), m), k)
	return Ite(ok, raw, fc.TE.Zero(mt.Elem())), ok
}

func (fc *FnCtx) lookup(st *State, x *ssa.Lookup) Val {
	if _, ok := x.X.Type().Underlying().(*types.Map); !ok {
		fc.unsup("string index")
	}
	m := fc.term(x.X)
	k := fc.term(x.Index)
	v, ok := fc.mapLookup(st, m, k, x.X.Type())
	// a nil map reads as empty
	ok = And(Not(Eq(m, IntLit(0))), ok)
	v = fc.S.Define(x.Name(), Ite(ok, v, fc.TE.Zero(x.X.Type().Underlying().(*types.Map).Elem())))
	fc.assumeWF(st, v, x.X.Type().Underlying().(*types.Map).Elem(), "map value")
	if x.CommaOk {
		return Val{Tup: []Val{tv(v), tv(fc.S.Define(x.Name()+"ok", ok))}}
	}
	return tv(v)
}

func (fc *FnCtx) mapStore(st *State, m, k, v Term, t types.Type) {
	dh, vh, _ := fc.mapHeaps(t)
	d := fc.heapGet(st, dh)
	oldDom := Select(d, m)
	newDom := fc.S.Define("dom", Store(oldDom, k, TTrue))
	fc.heapSet(st, dh, Store(d, m, newDom))
	vv := fc.heapGet(st, vh)
	fc.heapSet(st, vh, Store(vv, m, Store(Select(vv, m), k, v)))
	cf := cardFn(oldDom.Sort)
	fc.TE.G.DeclareFun(cf, []string{oldDom.Sort}, SInt)
	fc.S.Assume(Implies(st.PC, Eq(app(SInt, cf, newDom), app(SInt, "+", app(SInt, cf, oldDom), Ite(Select(oldDom, k), IntLit(0), IntLit(1))))), "card after insert")
}

func (fc *FnCtx) mapDelete(st *State, m, k Term, t types.Type) {
	dh, _, _ := fc.mapHeaps(t)
	d := fc.heapGet(st, dh)
	oldDom := Select(d, m)
	newDom := fc.S.Define("dom", Store(oldDom, k, TFalse))
	// delete on a nil map is a no-op
	fc.heapSet(st, dh, Ite(Eq(m, IntLit(0)), d, Store(d, m, newDom)))
	cf := cardFn(oldDom.Sort)
	fc.TE.G.DeclareFun(cf, []string{oldDom.Sort}, SInt)
	fc.S.Assume(Implies(st.PC, Eq(app(SInt, cf, newDom), app(SInt, "-", app(SInt, cf, oldDom), Ite(Select(oldDom, k), IntLit(1), IntLit(0))))), "card after delete")
}

func (fc *FnCtx) mapUpdate(st *State, x *ssa.MapUpdate) {
	m := fc.term(x.Map)
	fc.oblige(st, "no-panic", "nil-map", siteOf(fc, x), Not(Eq(m, IntLit(0))), "assignment to entry in nil map")
	fc.S.Assume(Implies(st.PC, Not(Eq(m, IntLit(0)))), "continues only if map not nil")
	fc.mapStore(st, m, fc.term(x.Key), fc.term(x.Value), x.Map.Type())
}

func (fc *FnCtx) sliceOp(st *State, x *ssa.Slice) Val {
	var s Term
	switch t := x.X.Type().Underlying().(type) {
	case *types.Slice:
		s = fc.term(x.X)
	case *types.Pointer:
		at, ok := t.Elem().Underlying().(*types.Array)
		if !ok {
			fc.unsup("slice of %s", x.X.Type())
		}
		fc.TE.ensureSlice()
		n := IntLit(at.Len())
		s = app("Slice", "mk_slice", fc.term(x.X), IntLit(0), n, n)
	default:
		fc.unsup("slice of %s", x.X.Type())
	}
	lo := IntLit(0)
	if x.Low != nil {
		lo = fc.toInt(fc.term(x.Low))
	}
	ln := app(SInt, "sl_len", s)
	cp := app(SInt, "sl_cap", s)
	hi := ln
	if x.High != nil {
		hi = fc.toInt(fc.term(x.High))
	}
	mx := cp
	if x.Max != nil {
		mx = fc.toInt(fc.term(x.Max))
	}
	cond := And(app(SBool, "<=", IntLit(0), lo), app(SBool, "<=", lo, hi), app(SBool, "<=", hi, mx), app(SBool, "<=", mx, cp))
	fc.oblige(st, "no-panic", "slice-bounds", siteOf(fc, x), cond, "slice bounds in range")
	fc.S.Assume(Implies(st.PC, cond), "continues only if bounds valid")
	r := app("Slice", "mk_slice", app(SInt, "sl_arr", s), app(SInt, "+", app(SInt, "sl_off", s), lo), app(SInt, "-", hi, lo), app(SInt, "-", mx, lo))
	return tv(fc.S.Define(x.Name(), r))
}

// Map iteration: ghost "seen" set per Range instruction.
func seenVar(x ssa.Value, keySort string) HeapVar {
	return HeapVar{"$seen." + x.Name(), ArraySort(keySort, SBool), HGhost}
}

func (fc *FnCtx) rangeStart(st *State, x *ssa.Range) Val {
	mt, ok := x.X.Type().Underlying().(*types.Map)
	if !ok {
		fc.unsup("range over %s", x.X.Type())
	}
	ks := fc.TE.SortOf(mt.Key())
	hv := seenVar(x, ks)
	fc.heapSet(st, hv, Term{fmt.Sprintf("((as const %s) false)", hv.Sort), hv.Sort})
	return Val{T: fc.term(x.X)}
}

func (fc *FnCtx) rangeNext(st *State, x *ssa.Next) Val {
	if x.IsString {
		fc.unsup("range over string")
	}
	rng := x.Iter.(*ssa.Range)
	mt := rng.X.Type().Underlying().(*types.Map)
	m := fc.val(rng).T
	ks := fc.TE.SortOf(mt.Key())
	hv := seenVar(rng, ks)
	seen := fc.heapGet(st, hv)
	dh, vh, _ := fc.mapHeaps(rng.X.Type())
	dom := Select(fc.heapGet(st, dh), m)
	k := fc.S.Fresh(x.Name()+".key", ks)
	ok := fc.S.Fresh(x.Name()+".ok", SBool)
	// a nil map has no keys
	notNil := Not(Eq(m, IntLit(0)))
	fc.S.Assume(Implies(And(st.PC, ok), And(notNil, Select(dom, k), Not(Select(seen, k)))), "next yields an unseen key of the current domain")
	fc.S.Assume(Implies(And(st.PC, Not(ok), notNil), Term{fmt.Sprintf("(forall ((x!k %s)) (! (=> (select %s x!k) (select %s x!k)) :pattern ((select %s x!k)) :pattern ((select %s x!k))))", ks, dom.S, seen.S, dom.S, seen.S), SBool}), "iteration ends when every key was seen")
	v := fc.S.Define(x.Name()+".val", Select(Select(fc.heapGet(st, vh), m), k))
	fc.assumeWF(st, v, mt.Elem(), "range value")
	fc.heapSet(st, hv, Ite(ok, Store(seen, k, TTrue), seen))
	return Val{Tup: []Val{tv(ok), tv(k), tv(v)}}
}

func (fc *FnCtx) typeAssert(st *State, x *ssa.TypeAssert) Val {
	v := fc.term(x.X)
	if _, isIface := x.AssertedType.Underlying().(*types.Interface); isIface {
		ok := Not(isNilTerm(v))
		if x.CommaOk {
			okv := fc.S.Fresh(x.Name()+".ok", SBool)
			fc.S.Assume(Implies(okv, ok), "interface assertion succeeds only on non-nil")
			return Val{Tup: []Val{tv(Ite(okv, v, Term{"ifc_nil", SIfc})), tv(okv)}}
		}
		// x.(I) panics on a nil interface; whether the dynamic type implements I is not modelled
		fc.oblige(st, "no-panic", "type-assert", siteOf(fc, x), ok, fmt.Sprintf("%s is not a nil interface", x.X.Name()))
		fc.S.Assume(Implies(st.PC, ok), "continues only if the assertion holds")
		fc.notes.Assumed["interface-to-interface assertion at "+siteOf(fc, x)+": the dynamic type implements the target interface (method sets not modelled)"] = true
		return tv(v)
	}
	has := fc.TE.HasTag(x.AssertedType, v)
	un := fc.TE.Unbox(x.AssertedType, v)
	if x.CommaOk {
		return Val{Tup: []Val{tv(Ite(has, un, fc.TE.Zero(x.AssertedType))), tv(fc.S.Define(x.Name()+".ok", has))}}
	}
	if fc.top.C != nil && fc.top.C.Opts["context-values-typed"] != "" {
		// "opt context-values-typed true": values this function takes out of a context.Context were
		// put there by piko with the asserted type (an environment assumption, listed in the evidence)
		fc.notes.Assumed["type assertion at "+siteOf(fc, x)+" in "+fc.top.C.Key+": the value stored in the context has type "+x.AssertedType.String()] = true
	} else {
		fc.oblige(st, "no-panic", "type-assert", siteOf(fc, x), has, fmt.Sprintf("%s holds a %s", x.X.Name(), x.AssertedType))
	}
	fc.S.Assume(Implies(st.PC, has), "continues only if assertion holds")
	r := fc.S.Define(x.Name(), un)
	fc.assumeWF(st, r, x.AssertedType, "asserted value")
	return tv(r)
}

func (fc *FnCtx) convert(st *State, x *ssa.Convert) Val {
	from, to := x.X.Type().Underlying(), x.Type().Underlying()
	v := fc.term(x.X)
	fb, _ := from.(*types.Basic)
	tb, _ := to.(*types.Basic)
	if fb != nil && tb != nil {
		fi, ti := fb.Info(), tb.Info()
		switch {
		case fi&types.IsInteger != 0 && ti&types.IsInteger != 0:
			if fc.TE.BV {
				return tv(v) // 64-bit everywhere; narrower types are not used in BV-mode functions
			}
			// mathematical integers: conversions that could wrap are assumed not to (reported)
			if fb.Kind() != tb.Kind() && convMayWrap(fb, tb) {
				fc.notes.Assumed[fmt.Sprintf("integer conversion %s -> %s does not wrap", fb.Name(), tb.Name())] = true
				if ti&types.IsUnsigned != 0 {
					fc.S.Assume(Implies(st.PC, app(SBool, ">=", v, IntLit(0))), "conversion to unsigned does not wrap")
				}
			}
			return tv(v)
		case fi&types.IsInteger != 0 && ti&types.IsFloat != 0:
			return tv(fc.E.i2f(fc.TE, v, fi&types.IsUnsigned != 0))
		case fi&types.IsFloat != 0 && ti&types.IsInteger != 0:
			return tv(fc.E.f2i(fc.TE, v))
		case fi&types.IsFloat != 0 && ti&types.IsFloat != 0:
			return tv(v)
		case fi&types.IsString != 0 && ti&types.IsString != 0:
			return tv(v)
		}
	}
	// string <-> []byte etc.: opaque
	name := "conv." + fc.TE.Key(x.X.Type()) + "." + fc.TE.Key(x.Type())
	fc.TE.G.DeclareFun(name, []string{fc.TE.SortOf(x.X.Type())}, fc.TE.SortOf(x.Type()))
	fc.notes.Assumed["conversion "+x.X.Type().String()+" -> "+x.Type().String()+" is an uninterpreted function"] = true
	r := app(fc.TE.SortOf(x.Type()), name, v)
	if fb, ok := x.X.Type().Underlying().(*types.Basic); ok && fb.Info()&types.IsString != 0 {
		if _, isSlice := x.Type().Underlying().(*types.Slice); isSlice && !fc.TE.BV {
			// []byte(s) / []rune(s) of an empty string is empty; []byte(s) has len(s) bytes
			ln := app(SInt, "sl_len", r)
			fc.S.Assume(app(SBool, ">=", ln, IntLit(0)), "length of a converted string")
			if es, ok := x.Type().Underlying().(*types.Slice).Elem().Underlying().(*types.Basic); ok && es.Kind() == types.Uint8 {
				fc.S.Assume(Eq(ln, fc.E.strLen(fc.TE, v)), "[]byte(s) has len(s) bytes")
			}
		}
	}
	return tv(r)
}

func convMayWrap(from, to *types.Basic) bool {
	// same signedness and widening: safe
	size := func(b *types.Basic) int {
		switch b.Kind() {
		case types.Int8, types.Uint8:
			return 8
		case types.Int16, types.Uint16:
			return 16
		case types.Int32, types.Uint32:
			return 32
		}
		return 64
	}
	fu := from.Info()&types.IsUnsigned != 0
	tu := to.Info()&types.IsUnsigned != 0
	if fu == tu && size(to) >= size(from) {
		return false
	}
	if fu && !tu && size(to) > size(from) {
		return false
	}
	return true
}

// runDefers executes the recorded defers in LIFO order under their guards.
func (fc *FnCtx) runDefers(st *State) {
	for i := len(fc.defers) - 1; i >= 0; i-- {
		d := fc.defers[i]
		g := And(st.PC, d.guard)
		if g.S == "false" {
			continue
		}
		if d.guard.S == fc.entry.PC.S || d.guard.S == "true" {
			fc.doCall(st, &d.instr.Call, d.instr, "defer."+calleeName(&d.instr.Call))
			continue
		}
		// conditional defer: run on a copy and merge
		before := st.clone()
		after := st.clone()
		after.PC = fc.S.Define("deferpc", g)
		fc.doCall(after, &d.instr.Call, d.instr, "defer."+calleeName(&d.instr.Call))
		m := fc.mergeStates([]Term{g, And(st.PC, Not(d.guard))}, []*State{after, before})
		st.Heap = m.Heap
	}
}
