package main

import (
	"fmt"
	"go/scanner"
	"go/token"
	"strings"
)

// Spec expression AST --------------------------------------------------------

type SExpr interface{ sexpr() }

type (
	SIdent  struct{ Name string }
	SIntLit struct{ Val string }
	SStrLit struct{ Val string }
	SFloatLit struct{ Val string }
	SBoolLit struct{ Val bool }
	SNil    struct{}
	SUnary  struct {
		Op string
		X  SExpr
	}
	SBinary struct {
		Op   string
		X, Y SExpr
	}
	STernary struct{ C, A, B SExpr }
	SSel     struct {
		X    SExpr
		Name string
	}
	SIndex struct{ X, I SExpr }
	SSlice struct{ X, Lo, Hi SExpr }
	SCall  struct {
		Fun  string
		At   string // for old@label(...)
		Args []SExpr
	}
	SQuant struct {
		Forall bool
		Vars   []SBinder
		Trig   [][]SExpr
		Body   SExpr
	}
	SDeref struct{ X SExpr }
	SMethod struct {
		X    SExpr
		Name string
		Args []SExpr
	}
	SLet   struct {
		Name string
		Val  SExpr
		Body SExpr
	}
)

type SBinder struct {
	Name string
	Type STypeExpr
}

// STypeExpr is a syntactic type: e.g. "*loadBalancer", "[]Entry", "cluster.Node", "set[string]".
type STypeExpr struct {
	Ptr   bool
	Slice bool
	Set   bool
	Arr   bool // arr[T]: the contents of a backing array, a total map from indices to T
	Map   bool
	Pkg   string
	Name  string
	Elem  *STypeExpr // for set/slice
	Key   *STypeExpr
}

func (SIdent) sexpr()   {}
func (SIntLit) sexpr()  {}
func (SStrLit) sexpr()  {}
func (SFloatLit) sexpr() {}
func (SBoolLit) sexpr() {}
func (SNil) sexpr()     {}
func (SUnary) sexpr()   {}
func (SBinary) sexpr()  {}
func (STernary) sexpr() {}
func (SSel) sexpr()     {}
func (SIndex) sexpr()   {}
func (SSlice) sexpr()   {}
func (SCall) sexpr()    {}
func (SQuant) sexpr()   {}
func (SDeref) sexpr()   {}
func (SMethod) sexpr()  {}
func (SLet) sexpr()     {}

// Lexer ---------------------------------------------------------------------

type stok struct {
	tok token.Token
	lit string
	pos int
}

type sparser struct {
	toks []stok
	i    int
	src  string
}

func lexSpec(src string) ([]stok, error) {
	fset := token.NewFileSet()
	file := fset.AddFile("", fset.Base(), len(src))
	var s scanner.Scanner
	var errs []string
	s.Init(file, []byte(src), func(pos token.Position, msg string) {
		if strings.Contains(msg, "illegal character") {
			return
		}
		errs = append(errs, msg)
	}, 0)
	var raw []stok
	for {
		pos, tok, lit := s.Scan()
		if tok == token.EOF {
			break
		}
		if tok == token.SEMICOLON && lit == "\n" {
			continue
		}
		raw = append(raw, stok{tok, lit, int(pos) - file.Base()})
	}
	if len(errs) > 0 {
		return nil, fmt.Errorf("lex %q: %s", src, strings.Join(errs, "; "))
	}
	// combine: "==" ">" adjacent -> "==>" ; "<" "==" ">" -> "<==>" ; ":" ":" -> "::"
	var out []stok
	for i := 0; i < len(raw); i++ {
		t := raw[i]
		if t.tok == token.LSS && i+2 < len(raw) && raw[i+1].tok == token.EQL && raw[i+2].tok == token.GTR &&
			raw[i+1].pos == t.pos+1 && raw[i+2].pos == t.pos+3 {
			out = append(out, stok{token.ILLEGAL, "<==>", t.pos})
			i += 2
			continue
		}
		if t.tok == token.LEQ && i+2 < len(raw) && raw[i+1].tok == token.ASSIGN && raw[i+2].tok == token.GTR &&
			raw[i+1].pos == t.pos+2 && raw[i+2].pos == t.pos+3 {
			out = append(out, stok{token.ILLEGAL, "<==>", t.pos})
			i += 2
			continue
		}
		if t.tok == token.EQL && i+1 < len(raw) && raw[i+1].tok == token.GTR && raw[i+1].pos == t.pos+2 {
			out = append(out, stok{token.ILLEGAL, "==>", t.pos})
			i++
			continue
		}
		if t.tok == token.COLON && i+1 < len(raw) && raw[i+1].tok == token.COLON && raw[i+1].pos == t.pos+1 {
			out = append(out, stok{token.ILLEGAL, "::", t.pos})
			i++
			continue
		}
		out = append(out, t)
	}
	return out, nil
}

func parseSpecExpr(src string) (e SExpr, err error) {
	toks, err := lexSpec(src)
	if err != nil {
		return nil, err
	}
	p := &sparser{toks: toks, src: src}
	defer func() {
		if r := recover(); r != nil {
			if pe, ok := r.(parseErr); ok {
				err = fmt.Errorf("parse %q: %s", src, string(pe))
				return
			}
			panic(r)
		}
	}()
	e = p.expr()
	if p.i < len(p.toks) {
		p.fail("unexpected %q", p.peekLit())
	}
	return e, nil
}

type parseErr string

func (p *sparser) fail(f string, a ...any) {
	panic(parseErr(fmt.Sprintf(f, a...) + fmt.Sprintf(" (token %d)", p.i)))
}

func (p *sparser) peek() stok {
	if p.i < len(p.toks) {
		return p.toks[p.i]
	}
	return stok{token.EOF, "", len(p.src)}
}

func (p *sparser) peekLit() string {
	t := p.peek()
	if t.lit != "" {
		return t.lit
	}
	return t.tok.String()
}

func (p *sparser) isLit(s string) bool { return p.peekLit() == s }

func (p *sparser) accept(s string) bool {
	if p.isLit(s) {
		p.i++
		return true
	}
	return false
}

func (p *sparser) expect(s string) {
	if !p.accept(s) {
		p.fail("expected %q, got %q", s, p.peekLit())
	}
}

func (p *sparser) ident() string {
	t := p.peek()
	if t.tok != token.IDENT {
		// keywords usable as identifiers in specs
		if t.tok.IsKeyword() {
			p.i++
			return t.tok.String()
		}
		p.fail("expected identifier, got %q", p.peekLit())
	}
	p.i++
	return t.lit
}

func (p *sparser) expr() SExpr {
	if p.isLit("forall") || p.isLit("exists") {
		return p.quant()
	}
	if p.isLit("let") {
		p.i++
		name := p.ident()
		p.expect("=")
		val := p.iff()
		p.expect("in")
		body := p.expr()
		return SLet{name, val, body}
	}
	return p.iff()
}

func (p *sparser) quant() SExpr {
	q := SQuant{Forall: p.isLit("forall")}
	p.i++
	for {
		name := p.ident()
		te := p.typeExpr()
		q.Vars = append(q.Vars, SBinder{name, te})
		if !p.accept(",") {
			break
		}
	}
	for p.isLit("{") {
		p.i++
		var tr []SExpr
		for {
			tr = append(tr, p.iff())
			if !p.accept(",") {
				break
			}
		}
		p.expect("}")
		q.Trig = append(q.Trig, tr)
	}
	p.expect("::")
	q.Body = p.expr()
	return q
}

func (p *sparser) typeExpr() STypeExpr {
	var te STypeExpr
	if p.accept("*") {
		te.Ptr = true
	}
	if p.isLit("[") {
		p.i++
		p.expect("]")
		el := p.typeExpr()
		return STypeExpr{Slice: true, Elem: &el}
	}
	name := p.ident()
	if name == "arr" && p.isLit("[") {
		p.i++
		el := p.typeExpr()
		p.expect("]")
		return STypeExpr{Arr: true, Elem: &el}
	}
	if name == "set" && p.isLit("[") {
		p.i++
		el := p.typeExpr()
		p.expect("]")
		return STypeExpr{Set: true, Elem: &el}
	}
	if name == "map" && p.isLit("[") {
		p.i++
		k := p.typeExpr()
		p.expect("]")
		el := p.typeExpr()
		return STypeExpr{Map: true, Key: &k, Elem: &el}
	}
	if p.accept(".") {
		te.Pkg = name
		te.Name = p.ident()
	} else {
		te.Name = name
	}
	return te
}

func (p *sparser) iff() SExpr {
	x := p.implies()
	for p.isLit("<==>") {
		p.i++
		y := p.implies()
		x = SBinary{"<==>", x, y}
	}
	return x
}

func (p *sparser) implies() SExpr {
	x := p.ternary()
	if p.isLit("==>") {
		p.i++
		var y SExpr
		if p.isLit("forall") || p.isLit("exists") {
			y = p.quant()
		} else {
			y = p.implies()
		}
		return SBinary{"==>", x, y}
	}
	return x
}

func (p *sparser) ternary() SExpr {
	c := p.or()
	if p.isLit("?") {
		p.i++
		a := p.ternary()
		p.expect(":")
		b := p.ternary()
		return STernary{c, a, b}
	}
	return c
}

func (p *sparser) or() SExpr {
	x := p.and()
	for p.isLit("||") {
		p.i++
		x = SBinary{"||", x, p.and()}
	}
	return x
}

func (p *sparser) and() SExpr {
	x := p.cmp()
	for p.isLit("&&") {
		p.i++
		var y SExpr
		if p.isLit("forall") || p.isLit("exists") {
			y = p.quant()
		} else {
			y = p.cmp()
		}
		x = SBinary{"&&", x, y}
	}
	return x
}

func (p *sparser) cmp() SExpr {
	x := p.add()
	for {
		switch l := p.peekLit(); l {
		case "==", "!=", "<", "<=", ">", ">=", "in":
			p.i++
			x = SBinary{l, x, p.add()}
		case "!":
			// "!in"
			if p.i+1 < len(p.toks) && p.toks[p.i+1].lit == "in" {
				p.i += 2
				x = SUnary{"!", SBinary{"in", x, p.add()}}
				continue
			}
			return x
		default:
			return x
		}
	}
}

func (p *sparser) add() SExpr {
	x := p.mul()
	for {
		switch l := p.peekLit(); l {
		case "+", "-":
			p.i++
			x = SBinary{l, x, p.mul()}
		default:
			return x
		}
	}
}

func (p *sparser) mul() SExpr {
	x := p.unary()
	for {
		switch l := p.peekLit(); l {
		case "*", "/", "%":
			p.i++
			x = SBinary{l, x, p.unary()}
		default:
			return x
		}
	}
}

func (p *sparser) unary() SExpr {
	switch l := p.peekLit(); l {
	case "!":
		p.i++
		return SUnary{"!", p.unary()}
	case "-":
		p.i++
		return SUnary{"-", p.unary()}
	case "*":
		p.i++
		return SDeref{p.unary()}
	}
	return p.postfix()
}

func (p *sparser) postfix() SExpr {
	x := p.primary()
	for {
		switch {
		case p.isLit("."):
			p.i++
			name := p.ident()
			if p.isLit("(") {
				p.i++
				var args []SExpr
				if !p.isLit(")") {
					for {
						args = append(args, p.expr())
						if !p.accept(",") {
							break
						}
					}
				}
				p.expect(")")
				x = SMethod{x, name, args}
				continue
			}
			x = SSel{x, name}
		case p.isLit("["):
			p.i++
			if p.accept(":") {
				hi := p.expr()
				p.expect("]")
				x = SSlice{x, nil, hi}
				continue
			}
			i := p.expr()
			if p.accept(":") {
				var hi SExpr
				if !p.isLit("]") {
					hi = p.expr()
				}
				p.expect("]")
				x = SSlice{x, i, hi}
				continue
			}
			p.expect("]")
			x = SIndex{x, i}
		default:
			return x
		}
	}
}

func (p *sparser) primary() SExpr {
	t := p.peek()
	switch t.tok {
	case token.INT:
		p.i++
		return SIntLit{t.lit}
	case token.FLOAT:
		p.i++
		return SFloatLit{t.lit}
	case token.STRING:
		p.i++
		s := t.lit
		if len(s) >= 2 {
			s = s[1 : len(s)-1]
		}
		return SStrLit{s}
	case token.LPAREN:
		p.i++
		e := p.expr()
		p.expect(")")
		return e
	case token.IDENT:
		p.i++
		name := t.lit
		switch name {
		case "true":
			return SBoolLit{true}
		case "false":
			return SBoolLit{false}
		case "nil":
			return SNil{}
		}
		at := ""
		// old@loop(e), old@lock(e)
		if name == "old" && p.peek().lit == "@" {
			p.i++
			at = p.ident()
		}
		// qualified call names like pkg.fn( are handled as SSel + call below
		if p.isLit("(") {
			p.i++
			var args []SExpr
			if !p.isLit(")") {
				for {
					args = append(args, p.expr())
					if !p.accept(",") {
						break
					}
				}
			}
			p.expect(")")
			return SCall{Fun: name, At: at, Args: args}
		}
		return SIdent{name}
	}
	if t.tok.IsKeyword() {
		p.i++
		return SIdent{t.tok.String()}
	}
	p.fail("unexpected %q", p.peekLit())
	return nil
}
