package main

import (
	"fmt"
	"go/types"
	"strings"
)

// TypeEnv maps Go types to SMT sorts and heap arrays for one Global.
type TypeEnv struct {
	G        *Global
	BV       bool // integers as 64-bit vectors (loop-free float code)
	keys     map[string]string // canonical type string -> short key
	keyOf    map[types.Type]string
	dtOf     map[string]*StructInfo // key -> struct info
	tagOf    map[string]int         // dynamic type tags for interfaces
	tagTypes []types.Type
}

type StructInfo struct {
	Key    string
	Sort   string
	T      *types.Struct
	Fields []FieldInfo
	Opaque bool
}

type FieldInfo struct {
	Name string
	Type types.Type
	Sort string
	Acc  string // datatype accessor
	Opaque bool // unexported field of another module's struct: an opaque Int
}

func newTypeEnv(g *Global, bv bool) *TypeEnv {
	return &TypeEnv{G: g, BV: bv, keys: map[string]string{}, keyOf: map[types.Type]string{}, dtOf: map[string]*StructInfo{}, tagOf: map[string]int{}}
}

func qualifier(p *types.Package) string {
	if p == nil {
		return ""
	}
	path := p.Path()
	path = strings.TrimPrefix(path, "github.com/andydunstall/piko/")
	return path
}

// Key returns a short SMT-safe identifier for a type.
func (te *TypeEnv) Key(t types.Type) string {
	s := types.TypeString(t, qualifier)
	if k, ok := te.keys[s]; ok {
		return k
	}
	k := sanitize(strings.NewReplacer("/", "_", "*", "p_", "[]", "sl_", " ", "", "{", "_", "}", "_", ";", "_", "(", "_", ")", "_", ",", "_").Replace(s))
	if len(k) > 60 {
		k = fmt.Sprintf("%s_%d", k[:50], len(te.keys))
	}
	// ensure uniqueness
	for _, v := range te.keys {
		if v == k {
			k = fmt.Sprintf("%s_%d", k, len(te.keys))
			break
		}
	}
	te.keys[s] = k
	return k
}

var opaqueStructs = map[string]bool{
	"sync.Mutex": true, "sync.RWMutex": true, "sync.WaitGroup": true, "sync.Once": true,
	"bytes.Buffer": true, "sync/atomic.Bool": true, "sync/atomic.Int64": true,
}

func isTime(t types.Type) bool {
	n, ok := t.(*types.Named)
	return ok && n.Obj().Pkg() != nil && n.Obj().Pkg().Path() == "time" && n.Obj().Name() == "Time"
}

func isNamed(t types.Type, pkg, name string) bool {
	n, ok := types.Unalias(t).(*types.Named)
	return ok && n.Obj().Pkg() != nil && n.Obj().Pkg().Path() == pkg && n.Obj().Name() == name
}

func (te *TypeEnv) intSort() string {
	if te.BV {
		return SBV64
	}
	return SInt
}

// SortOf maps a Go type to an SMT sort.
func (te *TypeEnv) SortOf(t types.Type) string {
	t = types.Unalias(t)
	if isTime(t) {
		return STime
	}
	switch u := t.Underlying().(type) {
	case *types.Basic:
		switch {
		case u.Info()&types.IsBoolean != 0:
			return SBool
		case u.Info()&types.IsInteger != 0:
			return te.intSort()
		case u.Info()&types.IsFloat != 0:
			return te.FSort()
		case u.Info()&types.IsString != 0:
			return SStr
		case u.Kind() == types.UnsafePointer:
			return SInt
		case u.Kind() == types.UntypedNil:
			return SInt
		}
		return SInt
	case *types.Pointer, *types.Map, *types.Chan, *types.Signature:
		return SInt
	case *types.Interface:
		return SIfc
	case *types.Slice:
		te.ensureSlice()
		return "Slice"
	case *types.Struct:
		return te.Struct(t).Sort
	case *types.Array:
		return ArraySort(SInt, te.SortOf(u.Elem()))
	case *types.Tuple:
		return "Tuple"
	}
	return SInt
}

func (te *TypeEnv) ensureSlice() {
	if te.G.dtNames["Slice"] {
		return
	}
	te.G.dtNames["Slice"] = true
	te.G.datatypes = append(te.G.datatypes, "(declare-datatypes ((Slice 0)) (((mk_slice (sl_arr Int) (sl_off Int) (sl_len Int) (sl_cap Int)))))")
}

// Struct returns the datatype info of a struct type (named or not).
func (te *TypeEnv) Struct(t types.Type) *StructInfo {
	t = types.Unalias(t)
	key := te.Key(t)
	if si, ok := te.dtOf[key]; ok {
		return si
	}
	st := t.Underlying().(*types.Struct)
	si := &StructInfo{Key: key, Sort: "S_" + key, T: st}
	te.dtOf[key] = si
	full := types.TypeString(t, func(p *types.Package) string { return p.Path() })
	if opaqueStructs[full] {
		si.Opaque = true
		te.G.datatypes = append(te.G.datatypes, fmt.Sprintf("(declare-sort %s 0)", si.Sort))
		te.G.DeclareFun("zero_"+si.Sort, nil, si.Sort)
		return si
	}
	var fs []string
	external := false
	if n, ok := t.(*types.Named); ok && n.Obj().Pkg() != nil && !strings.HasPrefix(n.Obj().Pkg().Path(), "github.com/andydunstall/piko") {
		external = true
	}
	for i := 0; i < st.NumFields(); i++ {
		f := st.Field(i)
		fsort := ""
		if external && !f.Exported() {
			// unexported fields of other modules' structs are never accessed from piko: opaque
			fsort = SInt
		} else {
			fsort = te.SortOf(f.Type())
		}
		fi := FieldInfo{Name: f.Name(), Type: f.Type(), Sort: fsort, Acc: fmt.Sprintf("%s.%s", key, f.Name()), Opaque: external && !f.Exported()}
		si.Fields = append(si.Fields, fi)
		fs = append(fs, fmt.Sprintf("(%s %s)", fi.Acc, fi.Sort))
	}
	if len(fs) == 0 {
		te.G.datatypes = append(te.G.datatypes, fmt.Sprintf("(declare-datatypes ((%s 0)) (((mk_%s))))", si.Sort, key))
	} else {
		te.G.datatypes = append(te.G.datatypes, fmt.Sprintf("(declare-datatypes ((%s 0)) (((mk_%s %s))))", si.Sort, key, strings.Join(fs, " ")))
	}
	return si
}

func (te *TypeEnv) MkStruct(t types.Type, fields []Term) Term {
	si := te.Struct(t)
	if si.Opaque {
		return Term{"zero_" + si.Sort, si.Sort}
	}
	if len(fields) == 0 {
		return Term{"mk_" + si.Key, si.Sort}
	}
	return app(si.Sort, "mk_"+si.Key, fields...)
}

func (te *TypeEnv) FieldOf(t types.Type, v Term, i int) Term {
	si := te.Struct(t)
	f := si.Fields[i]
	return app(f.Sort, f.Acc, v)
}

// WithField returns v with field i replaced by nv.
func (te *TypeEnv) WithField(t types.Type, v Term, i int, nv Term) Term {
	si := te.Struct(t)
	var fs []Term
	for j := range si.Fields {
		if j == i {
			fs = append(fs, nv)
		} else {
			fs = append(fs, te.FieldOf(t, v, j))
		}
	}
	return te.MkStruct(t, fs)
}

func (te *TypeEnv) IntLit(n int64) Term {
	if te.BV {
		return Term{fmt.Sprintf("(_ bv%d 64)", uint64(n)), SBV64}
	}
	return IntLit(n)
}

// Zero value of a Go type.
func (te *TypeEnv) Zero(t types.Type) Term {
	t = types.Unalias(t)
	if isTime(t) {
		return IntLit(0)
	}
	switch u := t.Underlying().(type) {
	case *types.Basic:
		switch {
		case u.Info()&types.IsBoolean != 0:
			return TFalse
		case u.Info()&types.IsInteger != 0:
			return te.IntLit(0)
		case u.Info()&types.IsFloat != 0:
			return te.FLit(0)
		case u.Info()&types.IsString != 0:
			return te.G.StrLit("")
		}
		return IntLit(0)
	case *types.Pointer, *types.Map, *types.Chan, *types.Signature:
		return IntLit(0)
	case *types.Interface:
		return Term{"ifc_nil", SIfc}
	case *types.Slice:
		te.ensureSlice()
		return Term{"(mk_slice 0 0 0 0)", "Slice"}
	case *types.Struct:
		si := te.Struct(t)
		if si.Opaque {
			return Term{"zero_" + si.Sort, si.Sort}
		}
		var fs []Term
		for _, f := range si.Fields {
			if f.Opaque {
				fs = append(fs, IntLit(0))
				continue
			}
			fs = append(fs, te.Zero(f.Type))
		}
		return te.MkStruct(t, fs)
	case *types.Array:
		return Term{fmt.Sprintf("((as const %s) %s)", te.SortOf(t), te.Zero(u.Elem()).S), te.SortOf(t)}
	}
	return IntLit(0)
}

// Heap array names -----------------------------------------------------------

type HeapKind int

const (
	HField HeapKind = iota
	HCell
	HElem
	HMapDom
	HMapVal
	HGlobal
	HGhost
)

type HeapVar struct {
	Name string
	Sort string
	Kind HeapKind
}

func (te *TypeEnv) FieldHeap(st types.Type, i int) HeapVar {
	si := te.Struct(st)
	f := si.Fields[i]
	return HeapVar{"H." + si.Key + "." + f.Name, ArraySort(SInt, f.Sort), HField}
}

func (te *TypeEnv) CellHeap(t types.Type) HeapVar {
	return HeapVar{"C." + te.Key(t), ArraySort(SInt, te.SortOf(t)), HCell}
}

func (te *TypeEnv) ElemHeap(elem types.Type) HeapVar {
	return HeapVar{"E." + te.Key(elem), ArraySort(SInt, ArraySort(SInt, te.SortOf(elem))), HElem}
}

func (te *TypeEnv) MapDomHeap(m *types.Map) HeapVar {
	return HeapVar{"Md." + te.Key(m.Key()) + "." + te.Key(m.Elem()), ArraySort(SInt, ArraySort(te.SortOf(m.Key()), SBool)), HMapDom}
}

func (te *TypeEnv) MapValHeap(m *types.Map) HeapVar {
	return HeapVar{"Mv." + te.Key(m.Key()) + "." + te.Key(m.Elem()), ArraySort(SInt, ArraySort(te.SortOf(m.Key()), te.SortOf(m.Elem()))), HMapVal}
}

func (te *TypeEnv) GlobalHeap(pkg, name string, t types.Type) HeapVar {
	return HeapVar{"G." + sanitize(strings.TrimPrefix(pkg, "github.com/andydunstall/piko/")) + "." + name, te.SortOf(t), HGlobal}
}

// Floating point: IEEE-754 binary64 terms in 'mode bv'; in the default mode an
// uninterpreted sort with uninterpreted operations, so that float-carrying
// code does not drag the FP theory into every query (the facts needed about
// the operations are proved in mode bv and restated as axioms).
const SFU = "F64"

func isFloatSort(s string) bool { return s == SF64 || s == SFU }

func (te *TypeEnv) FSort() string {
	if te.BV {
		return SF64
	}
	if !te.G.dtNames[SFU] {
		te.G.dtNames[SFU] = true
		te.G.datatypes = append(te.G.datatypes, "(declare-sort F64 0)")
	}
	return SFU
}

var fpOps = map[string]string{"add": "fp.add RNE", "sub": "fp.sub RNE", "mul": "fp.mul RNE", "div": "fp.div RNE", "neg": "fp.neg",
	"lt": "fp.lt", "leq": "fp.leq", "gt": "fp.gt", "geq": "fp.geq", "eq": "fp.eq", "isNaN": "fp.isNaN", "isInf": "fp.isInfinite",
	"ceil": "fp.roundToIntegral RTP", "floor": "fp.roundToIntegral RTN"}

func (te *TypeEnv) FOp(op string, args ...Term) Term {
	ret := te.FSort()
	switch op {
	case "lt", "leq", "gt", "geq", "eq", "isNaN", "isInf":
		ret = SBool
	}
	if te.BV {
		return app(ret, fpOps[op], args...)
	}
	name := "f." + op
	var sorts []string
	for range args {
		sorts = append(sorts, SFU)
	}
	te.G.DeclareFun(name, sorts, ret)
	return app(ret, name, args...)
}

func (te *TypeEnv) FLit(f float64) Term {
	if te.BV {
		return floatLit(f)
	}
	te.FSort()
	name := fmt.Sprintf("f.lit.%016x", mathFloat64bits(f))
	te.G.DeclareFun(name, nil, SFU)
	return Term{name, SFU}
}

// At reads element i of a slice view (backing array contents D, offset off).
// An uninterpreted function with a defining axiom, so that quantifier
// patterns mention no arithmetic.
func (te *TypeEnv) At(D, off, i Term) Term {
	es := arrayRange(D.Sort)
	name := "at." + sanitize(es)
	te.G.DeclareFun(name, []string{D.Sort, SInt, SInt}, es)
	te.G.AddAxiom(name+".def", fmt.Sprintf("(assert (forall ((d!a %s) (o!a Int) (i!a Int)) (! (= (%s d!a o!a i!a) (select d!a (+ o!a i!a))) :pattern ((%s d!a o!a i!a)))))", D.Sort, name, name), name)
	return app(es, name, D, off, i)
}

// Interface boxing -----------------------------------------------------------

func (te *TypeEnv) Tag(t types.Type) int {
	s := types.TypeString(t, func(p *types.Package) string { return p.Path() })
	if n, ok := te.tagOf[s]; ok {
		return n
	}
	n := len(te.tagOf) + 1
	te.tagOf[s] = n
	te.tagTypes = append(te.tagTypes, t)
	return n
}

func isRefLike(t types.Type) bool {
	switch t.Underlying().(type) {
	case *types.Pointer, *types.Map, *types.Chan, *types.Signature:
		return true
	}
	return false
}

// Box converts a concrete value to an interface value.
func (te *TypeEnv) Box(t types.Type, v Term) Term {
	if _, ok := t.Underlying().(*types.Interface); ok {
		return v
	}
	tag := te.Tag(t)
	var payload Term
	if isRefLike(t) {
		payload = v
	} else if b, ok := t.Underlying().(*types.Basic); ok && b.Info()&types.IsInteger != 0 && !te.BV {
		payload = v
	} else {
		fn := "box." + te.Key(t)
		un := "unbox." + te.Key(t)
		srt := te.SortOf(t)
		te.G.DeclareFun(fn, []string{srt}, SInt)
		te.G.DeclareFun(un, []string{SInt}, srt)
		te.G.AddAxiom("unbox."+te.Key(t), fmt.Sprintf("(assert (forall ((x %s)) (! (= (%s (%s x)) x) :pattern ((%s x)))))", srt, un, fn, fn), fn)
		payload = app(SInt, fn, v)
	}
	return app(SIfc, "ifc_mk", IntLit(int64(tag)), payload)
}

// Unbox extracts the concrete value (unspecified if the tag differs).
func (te *TypeEnv) Unbox(t types.Type, v Term) Term {
	if _, ok := t.Underlying().(*types.Interface); ok {
		return v
	}
	payload := app(SInt, "ifc_val", v)
	if isRefLike(t) {
		return Term{payload.S, te.SortOf(t)}
	}
	if b, ok := t.Underlying().(*types.Basic); ok && b.Info()&types.IsInteger != 0 && !te.BV {
		return payload
	}
	un := "unbox." + te.Key(t)
	fn := "box." + te.Key(t)
	srt := te.SortOf(t)
	te.G.DeclareFun(fn, []string{srt}, SInt)
	te.G.DeclareFun(un, []string{SInt}, srt)
	return app(srt, un, payload)
}

func (te *TypeEnv) HasTag(t types.Type, v Term) Term {
	return And(app(SBool, "(_ is ifc_mk)", v), Eq(app(SInt, "ifc_tag", v), IntLit(int64(te.Tag(t)))))
}

func isNilTerm(v Term) Term {
	if v.Sort == SIfc {
		return Eq(v, Term{"ifc_nil", SIfc})
	}
	if v.Sort == "Slice" {
		return Eq(app(SInt, "sl_arr", v), IntLit(0))
	}
	return Eq(v, IntLit(0))
}

func isUnsigned(t types.Type) bool {
	b, ok := t.Underlying().(*types.Basic)
	return ok && b.Info()&types.IsUnsigned != 0
}

func isInteger(t types.Type) bool {
	b, ok := t.Underlying().(*types.Basic)
	return ok && b.Info()&types.IsInteger != 0
}
