package main

import (
	"fmt"
	"go/constant"
	"go/types"
	"os"
	"strconv"
	"strings"

	"golang.org/x/tools/go/ssa"
)

type TKind int

const (
	KGo TKind = iota
	KSet
	KSpecInt // a spec-level integer (len etc.)
	KArr     // contents of a backing array: (Array Int elem)
)

type TVal struct {
	T    Term
	Ty   types.Type // Go type (KGo) or element type (KSet)
	Kind TKind
	Nil  bool
	P    *Ptr // location, for modifies clauses and unchanged()
	locOfValue bool
}

type SpecEnv struct {
	FC      *FnCtx
	Cur     *State
	Old     *State
	Named   map[string]*State
	Vars    map[string]TVal
	Macros  map[string]SExpr
	PkgPath string
	AtBlock *ssa.BasicBlock
	depth   int
	nbound  *int
	Results []TVal
	LoopPhis    map[ssa.Value]Val // header phis of the enclosing loop at loop entry (for oldloop)
	PhiOverride map[ssa.Value]Val
	inPattern   bool // evaluating a quantifier trigger: map reads without the in-domain guard (no ite in patterns)
}

type specErr struct{ msg string }

func (env *SpecEnv) fail(f string, a ...any) {
	panic(specErr{fmt.Sprintf(f, a...)})
}

func (env *SpecEnv) with(cur *State) *SpecEnv {
	n := *env
	n.Cur = cur
	return &n
}

func (env *SpecEnv) bind(name string, v TVal) *SpecEnv {
	n := *env
	n.Vars = make(map[string]TVal, len(env.Vars)+1)
	for k, x := range env.Vars {
		n.Vars[k] = x
	}
	n.Vars[name] = v
	return &n
}

func (fc *FnCtx) specEnv(cur *State) *SpecEnv {
	env := &SpecEnv{FC: fc, Cur: cur, Old: fc.top.entry, Named: map[string]*State{}, Vars: map[string]TVal{}, Macros: map[string]SExpr{}, PkgPath: fnPkgPath(fc.Fn)}
	n := 0
	env.nbound = &n
	if fc.atLock != nil {
		env.Named["lock"] = fc.atLock
	}
	for name, v := range fc.params {
		env.Vars[name] = TVal{T: v.T, Ty: fc.paramTy[name], P: v.P}
	}
	if fc.top.C != nil {
		for _, l := range fc.top.C.Lets {
			env.Macros[l.Name] = l.Expr
		}
	}
	return env
}

func (fc *FnCtx) evalClause(env *SpecEnv, cl *Clause) (t Term) {
	defer func() {
		if r := recover(); r != nil {
			if se, ok := r.(specErr); ok {
				panic(unsupported{fmt.Sprintf("%s: clause %q: %s", cl.Pos, cl.Src, se.msg)})
			}
			panic(r)
		}
	}()
	v := env.eval(cl.Expr)
	if v.T.Sort != SBool {
		env.fail("clause is not boolean (sort %s)", v.T.Sort)
	}
	return fc.S.Define("cl."+cl.Label, v.T)
}

// evalConjuncts splits a boolean spec expression into its top-level
// conjuncts (unfolding pure spec functions), so that an obligation can be
// discharged and reported clause by clause.
func (env *SpecEnv) evalConjuncts(e SExpr) []Term {
	switch x := e.(type) {
	case SBinary:
		if x.Op == "&&" {
			return append(env.evalConjuncts(x.X), env.evalConjuncts(x.Y)...)
		}
		if x.Op == "==>" {
			// A ==> (B && C) is reported as A ==> B and A ==> C
			if parts := env.evalConjuncts(x.Y); len(parts) > 1 {
				a := env.boolT(x.X)
				var out []Term
				for _, p := range parts {
					out = append(out, Implies(a, p))
				}
				return out
			}
		}
	case SCall:
		fc := env.FC
		if pd := fc.E.pure(env.PkgPath, x.Fun); pd != nil && !pd.Uninterp && len(pd.Params) == len(x.Args) && env.depth < 6 {
			if rt, _ := env.resolveType(pd.Ret); rt == tBool || types.Identical(rt, tBool) {
				n := *env
				n.PkgPath = pd.PkgPath
				n.depth = env.depth + 1
				n.Vars = map[string]TVal{}
				n.Macros = map[string]SExpr{}
				for i, p := range pd.Params {
					pt, k := n.resolveType(p.Type)
					a := env.eval(x.Args[i])
					if a.Nil {
						a.T = fc.TE.Zero(pt)
					}
					a.Ty, a.Kind = pt, k
					n.Vars[p.Name] = a
				}
				return n.evalConjuncts(pd.Body)
			}
		}
	}
	return []Term{env.boolT(e)}
}

func (fc *FnCtx) evalClauseParts(env *SpecEnv, cl *Clause) (ts []Term) {
	defer func() {
		if r := recover(); r != nil {
			if se, ok := r.(specErr); ok {
				panic(unsupported{fmt.Sprintf("%s: clause %q: %s", cl.Pos, cl.Src, se.msg)})
			}
			panic(r)
		}
	}()
	for _, t := range env.evalConjuncts(cl.Expr) {
		ts = append(ts, fc.S.Define("cl."+cl.Label, t))
	}
	return ts
}

func (env *SpecEnv) te() *TypeEnv { return env.FC.TE }

func (env *SpecEnv) boolT(e SExpr) Term {
	v := env.eval(e)
	if v.T.Sort != SBool {
		env.fail("expected boolean, got %s", v.T.Sort)
	}
	return v.T
}

func (env *SpecEnv) pkg() *types.Package {
	if p := env.FC.E.P.ByPath[env.PkgPath]; p != nil {
		return p.Types
	}
	return nil
}

func (env *SpecEnv) resolveType(te STypeExpr) (types.Type, TKind) {
	if te.Set {
		et, _ := env.resolveType(*te.Elem)
		return et, KSet
	}
	if te.Arr {
		et, _ := env.resolveType(*te.Elem)
		return et, KArr
	}
	if te.Slice {
		et, _ := env.resolveType(*te.Elem)
		return types.NewSlice(et), KGo
	}
	if te.Map {
		kt, _ := env.resolveType(*te.Key)
		et, _ := env.resolveType(*te.Elem)
		return types.NewMap(kt, et), KGo
	}
	var t types.Type
	if te.Pkg == "" {
		if obj := types.Universe.Lookup(te.Name); obj != nil {
			if tn, ok := obj.(*types.TypeName); ok {
				t = tn.Type()
			}
		}
		if t == nil {
			p := env.pkg()
			if p != nil {
				if obj := p.Scope().Lookup(te.Name); obj != nil {
					if tn, ok := obj.(*types.TypeName); ok {
						t = tn.Type()
					}
				}
			}
		}
	} else {
		p := env.pkg()
		if p != nil {
			for _, imp := range p.Imports() {
				if imp.Name() == te.Pkg {
					if obj := imp.Scope().Lookup(te.Name); obj != nil {
						if tn, ok := obj.(*types.TypeName); ok {
							t = tn.Type()
						}
					}
				}
			}
		}
		if t == nil {
			// any package imported anywhere in the module with that name
			for _, pp := range env.FC.E.P.Pkgs {
				for _, imp := range pp.Types.Imports() {
					if imp.Name() == te.Pkg && t == nil {
						if obj := imp.Scope().Lookup(te.Name); obj != nil {
							if tn, ok := obj.(*types.TypeName); ok {
								t = tn.Type()
							}
						}
					}
				}
			}
			// any loaded package with that name
			for _, pp := range env.FC.E.P.Pkgs {
				if t != nil {
					break
				}
				if pp.Types.Name() == te.Pkg {
					if obj := pp.Types.Scope().Lookup(te.Name); obj != nil {
						if tn, ok := obj.(*types.TypeName); ok {
							t = tn.Type()
						}
					}
				}
			}
		}
	}
	if t == nil {
		env.fail("unknown type %s.%s", te.Pkg, te.Name)
	}
	if te.Ptr {
		t = types.NewPointer(t)
	}
	return t, KGo
}

var tInt = types.Typ[types.Int]
var tBool = types.Typ[types.Bool]
var tString = types.Typ[types.String]
var tFloat = types.Typ[types.Float64]

func (env *SpecEnv) eval(e SExpr) TVal {
	fc := env.FC
	te := fc.TE
	switch x := e.(type) {
	case SIntLit:
		n, err := strconv.ParseInt(x.Val, 0, 64)
		if err != nil {
			if te.BV {
				un, _ := strconv.ParseUint(x.Val, 0, 64)
				return TVal{T: Term{fmt.Sprintf("(_ bv%d 64)", un), SBV64}, Ty: tInt}
			}
			return TVal{T: IntLitStr(x.Val), Ty: tInt}
		}
		return TVal{T: te.IntLit(n), Ty: tInt}
	case SFloatLit:
		f, _ := strconv.ParseFloat(x.Val, 64)
		return TVal{T: te.FLit(f), Ty: tFloat}
	case SStrLit:
		s, err := strconv.Unquote(`"` + x.Val + `"`)
		if err != nil {
			s = x.Val
		}
		return TVal{T: te.G.StrLit(s), Ty: tString}
	case SBoolLit:
		if x.Val {
			return TVal{T: TTrue, Ty: tBool}
		}
		return TVal{T: TFalse, Ty: tBool}
	case SNil:
		return TVal{Nil: true, T: IntLit(0)}
	case SIdent:
		return env.ident(x.Name)
	case SUnary:
		v := env.eval(x.X)
		switch x.Op {
		case "!":
			return TVal{T: Not(v.T), Ty: tBool}
		case "-":
			if isFloatSort(v.T.Sort) {
				return TVal{T: te.FOp("neg", v.T), Ty: v.Ty}
			}
			if v.T.Sort == SBV64 {
				return TVal{T: app(SBV64, "bvneg", v.T), Ty: v.Ty}
			}
			return TVal{T: app(SInt, "-", v.T), Ty: v.Ty}
		}
	case SBinary:
		return env.binary(x)
	case STernary:
		c := env.boolT(x.C)
		a := env.eval(x.A)
		b := env.eval(x.B)
		if a.Nil {
			a.T, a.Ty = te.Zero(b.Ty), b.Ty
		}
		if b.Nil {
			b.T = te.Zero(a.Ty)
		}
		return TVal{T: Ite(c, a.T, b.T), Ty: a.Ty, Kind: a.Kind}
	case SSel:
		// package-qualified constant or global?
		if id, ok := x.X.(SIdent); ok {
			if _, isVar := env.Vars[id.Name]; !isVar {
				if v, ok := env.qualified(id.Name, x.Name); ok {
					return v
				}
			}
		}
		v := env.eval(x.X)
		return env.selField(v, x.Name)
	case SIndex:
		v := env.eval(x.X)
		i := env.eval(x.I)
		return env.index(v, i)
	case SSlice:
		env.fail("slice expressions are not supported in specs")
	case SDeref:
		v := env.eval(x.X)
		pt, ok := v.Ty.Underlying().(*types.Pointer)
		if !ok {
			env.fail("deref of non-pointer")
		}
		if v.P != nil {
			return TVal{T: fc.loadPtr(env.Cur, v.P), Ty: pt.Elem()}
		}
		if isStruct(pt.Elem()) {
			return TVal{T: fc.loadStructRef(env.Cur, v.T, pt.Elem()), Ty: pt.Elem()}
		}
		return TVal{T: Select(fc.heapGet(env.Cur, te.CellHeap(pt.Elem())), v.T), Ty: pt.Elem()}
	case SCall:
		return env.call(x)
	case SMethod:
		return env.method(x)
	case SQuant:
		return env.quant(x)
	case SLet:
		v := env.eval(x.Val)
		return env.bind(x.Name, v).eval(x.Body)
	}
	env.fail("unsupported spec expression %T", e)
	return TVal{}
}

func (env *SpecEnv) qualified(pkgName, name string) (TVal, bool) {
	fc := env.FC
	p := env.pkg()
	if p == nil {
		return TVal{}, false
	}
	var target *types.Package
	for _, imp := range p.Imports() {
		if imp.Name() == pkgName {
			target = imp
		}
	}
	if target == nil {
		return TVal{}, false
	}
	obj := target.Scope().Lookup(name)
	switch o := obj.(type) {
	case *types.Const:
		return env.constVal(o), true
	case *types.Var:
		// global variable (e.g. io.EOF, net.ErrClosed): its value
		hv := fc.TE.GlobalHeap(target.Path(), name, o.Type())
		return TVal{T: fc.heapGet(env.Cur, hv), Ty: o.Type()}, true
	}
	return TVal{}, false
}

func (env *SpecEnv) constVal(o *types.Const) TVal {
	te := env.te()
	t := o.Type()
	switch b := t.Underlying().(*types.Basic); {
	case b.Info()&types.IsString != 0:
		return TVal{T: te.G.StrLit(constant.StringVal(o.Val())), Ty: t}
	case b.Info()&types.IsBoolean != 0:
		if constant.BoolVal(o.Val()) {
			return TVal{T: TTrue, Ty: t}
		}
		return TVal{T: TFalse, Ty: t}
	case b.Info()&types.IsInteger != 0:
		n, _ := constant.Int64Val(o.Val())
		return TVal{T: te.IntLit(n), Ty: t}
	case b.Info()&types.IsFloat != 0:
		f, _ := constant.Float64Val(o.Val())
		return TVal{T: te.FLit(f), Ty: t}
	}
	env.fail("constant %s", o.Name())
	return TVal{}
}

func (env *SpecEnv) ident(name string) TVal {
	fc := env.FC
	if v, ok := env.Vars[name]; ok {
		return v
	}
	if m, ok := env.Macros[name]; ok {
		if env.depth > 20 {
			env.fail("macro recursion")
		}
		n := *env
		n.depth++
		return n.eval(m)
	}
	if name == "result" && len(env.Results) > 0 {
		return env.Results[0]
	}
	if strings.HasPrefix(name, "result") && len(env.Results) > 0 {
		if i, err := strconv.Atoi(name[6:]); err == nil && i < len(env.Results) {
			return env.Results[i]
		}
	}
	if name == "seen" {
		return env.seenSet()
	}
	if v, ok := fc.lookupLocal(env, name); ok {
		return v
	}
	// package-level constants / variables
	if p := env.pkg(); p != nil {
		switch o := p.Scope().Lookup(name).(type) {
		case *types.Const:
			return env.constVal(o)
		case *types.Var:
			hv := fc.TE.GlobalHeap(p.Path(), name, o.Type())
			gt := fc.heapGet(env.Cur, hv)
			if gt.Sort == SIfc && types.Identical(o.Type(), types.Universe.Lookup("error").Type()) && !fc.S.Quiet {
				// package-level error values (ErrClosed, ...) are set once at initialisation
				fc.S.Assume(Not(Eq(gt, Term{"ifc_nil", SIfc})), "package-level error variable "+name+" is not nil")
			}
			return TVal{T: gt, Ty: o.Type()}
		}
	}
	// a recorded name of a variable that has been renamed in the code since the ledger was written
	if cur, ok := fc.top.alias[name]; ok && cur != name {
		if v, ok := env.Vars[cur]; ok {
			return v
		}
		if v, ok := fc.lookupLocal(env, cur); ok {
			return v
		}
	}
	// ghost variables
	if g := fc.E.ghost(env.PkgPath, name); g != nil {
		genv := *env
		genv.PkgPath = g.PkgPath // a ghost's type is written in its declaring package
		gt, kind := genv.resolveType(g.Type)
		hv := HeapVar{"$g." + name, env.sortOfKind(gt, kind), HGhost}
		return TVal{T: fc.heapGet(env.Cur, hv), Ty: gt, Kind: kind}
	}
	env.fail("unknown identifier %q", name)
	return TVal{}
}

func (env *SpecEnv) sortOfKind(t types.Type, k TKind) string {
	if k == KSet {
		return ArraySort(env.te().SortOf(t), SBool)
	}
	if k == KArr {
		return ArraySort(SInt, env.te().SortOf(t))
	}
	return env.te().SortOf(t)
}

func (env *SpecEnv) seenSet() TVal {
	fc := env.FC
	if env.AtBlock == nil {
		env.fail("'seen' used outside a loop")
	}
	// the Next instruction of the innermost enclosing range loop
	for b := env.AtBlock; b != nil; b = b.Idom() {
		for _, in := range b.Instrs {
			if nx, ok := in.(*ssa.Next); ok && !nx.IsString {
				rng := nx.Iter.(*ssa.Range)
				mt := rng.X.Type().Underlying().(*types.Map)
				hv := seenVar(rng, fc.TE.SortOf(mt.Key()))
				return TVal{T: fc.heapGet(env.Cur, hv), Ty: mt.Key(), Kind: KSet}
			}
		}
		if fc.loops[b] != nil && b != env.AtBlock {
			break
		}
	}
	env.fail("no map range loop encloses this clause")
	return TVal{}
}

// lookupLocal resolves a source-level local variable name at env.AtBlock.
func (fc *FnCtx) lookupLocal(env *SpecEnv, name string) (TVal, bool) {
	at := env.AtBlock
	// 1. header phi
	if at != nil {
		for _, in := range at.Instrs {
			if phi, ok := in.(*ssa.Phi); ok {
				if phi.Comment == name {
					if v, ok := env.PhiOverride[phi]; ok {
						return TVal{T: v.T, Ty: phi.Type()}, true
					}
					if v, ok := fc.vals[phi]; ok {
						return TVal{T: v.T, Ty: phi.Type()}, true
					}
				}
			}
		}
	}
	// 2. address-taken local
	for _, b := range fc.Fn.Blocks {
		for _, in := range b.Instrs {
			if a, ok := in.(*ssa.Alloc); ok && a.Comment == name {
				v, ok := fc.vals[a]
				if !ok {
					continue
				}
				elem := a.Type().(*types.Pointer).Elem()
				if v.P != nil {
					return derefLoc(TVal{T: fc.loadPtr(env.Cur, v.P), Ty: elem, P: v.P}), true
				}
				if isStruct(elem) {
					// a struct variable held in memory: denote it by its address, so that
					// field selections are locations (x.f reads through the heap either way)
					return TVal{T: v.T, Ty: a.Type()}, true
				}
			}
		}
	}
	// 3. the closest dominating definition: a phi carrying the variable's name, or a debug ref
	var best ssa.Value
	var bestBlock *ssa.BasicBlock
	consider := func(v ssa.Value, b *ssa.BasicBlock) {
		if at != nil && !(b == at || b.Dominates(at)) {
			return
		}
		if _, ok := fc.vals[v]; !ok {
			if _, isC := v.(*ssa.Const); !isC {
				return
			}
		}
		if best == nil || bestBlock == b || bestBlock.Dominates(b) {
			best, bestBlock = v, b
		}
	}
	for _, b := range fc.Fn.Blocks {
		for _, in := range b.Instrs {
			switch x := in.(type) {
			case *ssa.Phi:
				if x.Comment == name {
					consider(x, b)
				}
			case *ssa.DebugRef:
				if x.IsAddr {
					continue
				}
				if obj := x.Object(); obj != nil && obj.Name() == name {
					if obj.Pkg() != nil && obj.Parent() == obj.Pkg().Scope() {
						// a use of a package-level variable, not a local: resolved as a global below
						continue
					}
					consider(x.X, b)
				}
			}
		}
	}
	if best != nil {
		if v, ok := env.PhiOverride[best]; ok {
			return TVal{T: v.T, Ty: best.Type(), P: v.P}, true
		}
		v := fc.val(best)
		return TVal{T: v.T, Ty: best.Type(), P: v.P}, true
	}
	return TVal{}, false
}

func (env *SpecEnv) binary(x SBinary) TVal {
	te := env.te()
	switch x.Op {
	case "&&":
		return TVal{T: And(env.boolT(x.X), env.boolT(x.Y)), Ty: tBool}
	case "||":
		return TVal{T: Or(env.boolT(x.X), env.boolT(x.Y)), Ty: tBool}
	case "==>":
		return TVal{T: Implies(env.boolT(x.X), env.boolT(x.Y)), Ty: tBool}
	case "<==>":
		return TVal{T: Eq(env.boolT(x.X), env.boolT(x.Y)), Ty: tBool}
	case "in":
		k := env.eval(x.X)
		s := env.eval(x.Y)
		if s.Kind == KSet {
			return TVal{T: Select(s.T, k.T), Ty: tBool}
		}
		if _, ok := s.Ty.Underlying().(*types.Map); ok {
			dh, _, _ := env.FC.mapHeaps(s.Ty)
			if env.inPattern {
				return TVal{T: Select(Select(env.FC.heapGet(env.Cur, dh), s.T), k.T), Ty: tBool}
			}
			return TVal{T: And(Not(Eq(s.T, IntLit(0))), Select(Select(env.FC.heapGet(env.Cur, dh), s.T), k.T)), Ty: tBool}
		}
		env.fail("'in' needs a set or map")
	}
	a := env.eval(x.X)
	b := env.eval(x.Y)
	if x.Op == "==" || x.Op == "!=" {
		var eq Term
		switch {
		case a.Nil && b.Nil:
			eq = TTrue
		case a.Nil:
			eq = isNilTerm(b.T)
		case b.Nil:
			eq = isNilTerm(a.T)
		default:
			// note: on float64 this is identity (SMT =), not IEEE ==; use feq(a, b) for the latter
			if a.T.Sort != b.T.Sort {
				env.fail("comparison of different sorts %s and %s", a.T.Sort, b.T.Sort)
			}
			eq = Eq(a.T, b.T)
		}
		if x.Op == "!=" {
			eq = Not(eq)
		}
		return TVal{T: eq, Ty: tBool}
	}
	if a.T.Sort != b.T.Sort {
		env.fail("operator %s on different sorts %s and %s", x.Op, a.T.Sort, b.T.Sort)
	}
	uns := a.Ty != nil && isUnsigned(a.Ty)
	switch a.T.Sort {
	case SInt:
		switch x.Op {
		case "+", "-", "*":
			return TVal{T: app(SInt, x.Op, a.T, b.T), Ty: a.Ty}
		case "/":
			return TVal{T: goDiv(a.T, b.T), Ty: a.Ty}
		case "%":
			return TVal{T: goRem(a.T, b.T), Ty: a.Ty}
		case "<", "<=", ">", ">=":
			return TVal{T: app(SBool, x.Op, a.T, b.T), Ty: tBool}
		}
	case SBV64:
		ops := map[string]string{"+": "bvadd", "-": "bvsub", "*": "bvmul", "/": pick(uns, "bvudiv", "bvsdiv"), "%": pick(uns, "bvurem", "bvsrem")}
		cmp := map[string]string{"<": pick(uns, "bvult", "bvslt"), "<=": pick(uns, "bvule", "bvsle"), ">": pick(uns, "bvugt", "bvsgt"), ">=": pick(uns, "bvuge", "bvsge")}
		if o, ok := ops[x.Op]; ok {
			return TVal{T: app(SBV64, o, a.T, b.T), Ty: a.Ty}
		}
		if o, ok := cmp[x.Op]; ok {
			return TVal{T: app(SBool, o, a.T, b.T), Ty: tBool}
		}
	case SF64, SFU:
		ops := map[string]string{"+": "add", "-": "sub", "*": "mul", "/": "div"}
		cmp := map[string]string{"<": "lt", "<=": "leq", ">": "gt", ">=": "geq"}
		if o, ok := ops[x.Op]; ok {
			return TVal{T: te.FOp(o, a.T, b.T), Ty: a.Ty}
		}
		if o, ok := cmp[x.Op]; ok {
			return TVal{T: te.FOp(o, a.T, b.T), Ty: tBool}
		}
	case SStr:
		if x.Op == "+" {
			return TVal{T: env.FC.E.strConcat(te, a.T, b.T), Ty: tString}
		}
	}
	env.fail("operator %s on sort %s", x.Op, a.T.Sort)
	return TVal{}
}

// selField: x.f with promotion through embedded structs and pointers.
func (env *SpecEnv) selField(v TVal, name string) TVal {
	fc := env.FC
	if v.Ty == nil {
		env.fail("selector %s on untyped value", name)
	}
	obj, index, _ := types.LookupFieldOrMethod(v.Ty, true, env.pkgOfType(v.Ty), name)
	fld, ok := obj.(*types.Var)
	if !ok || !fld.IsField() {
		env.fail("no field %s in %s", name, v.Ty)
	}
	cur := v
	for _, idx := range index {
		t := cur.Ty
		if pt, ok := t.Underlying().(*types.Pointer); ok {
			st := pt.Elem()
			if cur.P != nil && !cur.locOfValue {
				// interior pointer to a struct value
				np := *cur.P
				np.Path = append(append([]PathStep{}, cur.P.Path...), PathStep{st, idx})
				ft := st.Underlying().(*types.Struct).Field(idx).Type()
				loc := np
				cur = derefLoc(TVal{T: fc.loadPtr(env.Cur, &np), Ty: ft, P: &loc})
				continue
			}
			p := &Ptr{Root: RField, Ref: cur.T, St: st, Field: idx}
			ft := st.Underlying().(*types.Struct).Field(idx).Type()
			cur = TVal{T: fc.loadPtr(env.Cur, p), Ty: ft, P: p}
			cur = derefLoc(cur)
			continue
		}
		st := t
		ft := st.Underlying().(*types.Struct).Field(idx).Type()
		var loc *Ptr
		if cur.P != nil && cur.locOfValue {
			np := *cur.P
			np.Path = append(append([]PathStep{}, cur.P.Path...), PathStep{st, idx})
			loc = &np
		}
		cur = TVal{T: fc.TE.FieldOf(st, cur.T, idx), Ty: ft, P: loc}
		cur = derefLoc(cur)
	}
	return cur
}

// derefLoc marks that P is the location holding the value T (not a pointer value).
func derefLoc(v TVal) TVal {
	v.locOfValue = true
	return v
}

func (env *SpecEnv) pkgOfType(t types.Type) *types.Package {
	if pt, ok := t.Underlying().(*types.Pointer); ok {
		t = pt.Elem()
	}
	if n, ok := types.Unalias(t).(*types.Named); ok && n.Obj().Pkg() != nil {
		return n.Obj().Pkg()
	}
	return env.pkg()
}

func (env *SpecEnv) index(v, i TVal) TVal {
	fc := env.FC
	switch t := v.Ty.Underlying().(type) {
	case *types.Slice:
		p := &Ptr{Root: RElem, Ref: app(SInt, "sl_arr", v.T), Off: app(SInt, "sl_off", v.T), Idx: fc.toInt(i.T), Elem: t.Elem()}
		return derefLoc(TVal{T: fc.loadPtr(env.Cur, p), Ty: t.Elem(), P: p})
	case *types.Map:
		if env.inPattern {
			_, vh, _ := fc.mapHeaps(v.Ty)
			return TVal{T: Select(Select(fc.heapGet(env.Cur, vh), v.T), i.T), Ty: t.Elem()}
		}
		val, _ := fc.mapLookup(env.Cur, v.T, i.T, v.Ty)
		return TVal{T: val, Ty: t.Elem()}
	}
	if v.Kind == KSet {
		return TVal{T: Select(v.T, i.T), Ty: tBool}
	}
	if v.Kind == KArr {
		return TVal{T: Select(v.T, fc.toInt(i.T)), Ty: v.Ty}
	}
	env.fail("index of %s", v.Ty)
	return TVal{}
}

func (env *SpecEnv) quant(q SQuant) TVal {
	fc := env.FC
	n := env
	var binders []string
	var guards []Term
	for _, b := range q.Vars {
		t, kind := env.resolveType(b.Type)
		*env.nbound++
		name := fmt.Sprintf("%s!b%d", b.Name, *env.nbound)
		srt := n.sortOfKind(t, kind)
		binders = append(binders, fmt.Sprintf("(%s %s)", name, srt))
		bv := Term{name, srt}
		n = n.bind(b.Name, TVal{T: bv, Ty: t, Kind: kind})
		if kind == KGo {
			if g := fc.wfBinder(bv, t); g.S != "true" {
				guards = append(guards, g)
			}
		}
	}
	body := n.boolT(q.Body)
	g := And(guards...)
	if q.Forall {
		body = Implies(g, body)
	} else {
		body = And(g, body)
	}
	var pats []string
	for _, tr := range q.Trig {
		var ts []string
		pn := *n
		pn.inPattern = os.Getenv("VCGO_RAWPAT") != "0"
		for _, e := range tr {
			ts = append(ts, pn.eval(e).T.S)
		}
		pats = append(pats, ":pattern ("+strings.Join(ts, " ")+")")
	}
	kw := "forall"
	if !q.Forall {
		kw = "exists"
	}
	var s string
	// a name for solver profiles (smt.qi.profile) and for reading a query: the bound variables
	qid := "q"
	for _, b := range q.Vars {
		qid += "." + b.Name
	}
	qid = fmt.Sprintf("%s.%d", qid, *env.nbound)
	if len(pats) > 0 {
		s = fmt.Sprintf("(%s (%s) (! %s :qid %s %s))", kw, strings.Join(binders, " "), body.S, qid, strings.Join(pats, " "))
	} else {
		s = fmt.Sprintf("(%s (%s) (! %s :qid %s))", kw, strings.Join(binders, " "), body.S, qid)
	}
	return TVal{T: Term{s, SBool}, Ty: tBool}
}

// wfBinder: range restriction of a bound variable of a Go type.
func (fc *FnCtx) wfBinder(v Term, t types.Type) Term {
	if b, ok := t.Underlying().(*types.Basic); ok && b.Info()&types.IsUnsigned != 0 && !fc.TE.BV {
		return app(SBool, ">=", v, IntLit(0))
	}
	if _, ok := t.Underlying().(*types.Pointer); ok {
		return app(SBool, ">=", v, IntLit(0))
	}
	return TTrue
}

func (env *SpecEnv) inState(name string) *SpecEnv {
	var st *State
	switch name {
	case "old":
		st = env.Old
	default:
		st = env.Named[name]
	}
	if st == nil {
		env.fail("no %q state available here", name)
	}
	n := env.with(st)
	if n.Named == nil {
		n.Named = map[string]*State{}
	}
	if _, ok := env.Named["$now"]; !ok {
		// remember the state old(...) was entered from, for now(...)
		nm := map[string]*State{}
		for k, v := range env.Named {
			nm[k] = v
		}
		nm["$now"] = env.Cur
		n.Named = nm
	}
	if name == "loop" {
		// loop-carried variables denote their values at loop entry
		n.PhiOverride = env.LoopPhis
	}
	return n
}

func (env *SpecEnv) call(c SCall) TVal {
	fc := env.FC
	te := fc.TE
	argN := func(n int) {
		if len(c.Args) != n {
			env.fail("%s expects %d arguments", c.Fun, n)
		}
	}
	switch c.Fun {
	case "old":
		argN(1)
		if c.At != "" {
			return env.inState(c.At).eval(c.Args[0])
		}
		return env.inState("old").eval(c.Args[0])
	case "oldloop":
		argN(1)
		return env.inState("loop").eval(c.Args[0])
	case "now":
		// now(e) inside old(...): e in the state old(...) was written in (e.g. a local slice built since)
		argN(1)
		if st := env.Named["$now"]; st != nil {
			n := env.with(st)
			n.PhiOverride = nil
			return n.eval(c.Args[0])
		}
		return env.eval(c.Args[0])
	case "atlock":
		argN(1)
		return env.inState("lock").eval(c.Args[0])
	case "len":
		argN(1)
		v := env.eval(c.Args[0])
		switch v.Ty.Underlying().(type) {
		case *types.Slice:
			return TVal{T: fc.sliceLen(v.T), Ty: tInt}
		case *types.Map:
			dh, _, _ := fc.mapHeaps(v.Ty)
			dom := Select(fc.heapGet(env.Cur, dh), v.T)
			te.G.DeclareFun(cardFn(dom.Sort), []string{dom.Sort}, SInt)
			return TVal{T: Ite(Eq(v.T, IntLit(0)), IntLit(0), app(SInt, cardFn(dom.Sort), dom)), Ty: tInt}
		case *types.Basic:
			return TVal{T: fc.E.strLen(te, v.T), Ty: tInt}
		}
		env.fail("len of %s", v.Ty)
	case "cap":
		argN(1)
		v := env.eval(c.Args[0])
		return TVal{T: fc.fromInt(app(SInt, "sl_cap", v.T)), Ty: tInt}
	case "dom":
		argN(1)
		v := env.eval(c.Args[0])
		mt, ok := v.Ty.Underlying().(*types.Map)
		if !ok {
			env.fail("dom of non-map")
		}
		dh, _, _ := fc.mapHeaps(v.Ty)
		return TVal{T: Select(fc.heapGet(env.Cur, dh), v.T), Ty: mt.Key(), Kind: KSet}
	case "allocated":
		argN(1)
		v := env.eval(c.Args[0])
		ref := v.T
		if v.T.Sort == "Slice" {
			ref = app(SInt, "sl_arr", v.T)
		}
		return TVal{T: And(app(SBool, ">=", ref, IntLit(0)), app(SBool, "<", ref, fc.heapGet(env.Cur, nextVar))), Ty: tBool}
	case "contents":
		// contents(s): the backing array of slice s as a value
		argN(1)
		v := env.eval(c.Args[0])
		sl, ok := v.Ty.Underlying().(*types.Slice)
		if !ok {
			env.fail("contents of non-slice")
		}
		return TVal{T: Select(fc.heapGet(env.Cur, te.ElemHeap(sl.Elem())), app(SInt, "sl_arr", v.T)), Ty: sl.Elem(), Kind: KArr}
	case "at":
		// at(d, off, i): element i of the view of d starting at off
		argN(3)
		d := env.eval(c.Args[0])
		if d.Kind != KArr {
			env.fail("at needs array contents")
		}
		return TVal{T: te.At(d.T, fc.toInt(env.eval(c.Args[1]).T), fc.toInt(env.eval(c.Args[2]).T)), Ty: d.Ty}
	case "sel":
		// sel(d, p): the element at absolute position p of array contents d
		argN(2)
		d := env.eval(c.Args[0])
		if d.Kind != KArr {
			env.fail("sel needs array contents")
		}
		return TVal{T: Select(d.T, fc.toInt(env.eval(c.Args[1]).T)), Ty: d.Ty}
	case "store":
		argN(3)
		d := env.eval(c.Args[0])
		if d.Kind != KArr {
			env.fail("store needs array contents")
		}
		return TVal{T: Store(d.T, fc.toInt(env.eval(c.Args[1]).T), env.eval(c.Args[2]).T), Ty: d.Ty, Kind: KArr}
	case "fresh":
		// allocated by this function/step: not allocated in the old state
		argN(1)
		v := env.eval(c.Args[0])
		ref := v.T
		if v.T.Sort == "Slice" {
			ref = app(SInt, "sl_arr", v.T)
		}
		if env.Old == nil {
			env.fail("fresh needs an old state")
		}
		return TVal{T: And(app(SBool, ">=", ref, fc.heapGet(env.Old, nextVar)), app(SBool, "<", ref, fc.heapGet(env.Cur, nextVar))), Ty: tBool}
	case "loopfresh":
		// allocated since the enclosing loop was entered
		argN(1)
		v := env.eval(c.Args[0])
		ref := v.T
		if v.T.Sort == "Slice" {
			ref = app(SInt, "sl_arr", v.T)
		}
		lst := env.Named["loop"]
		if lst == nil {
			env.fail("loopfresh outside a loop")
		}
		return TVal{T: And(app(SBool, ">=", ref, fc.heapGet(lst, nextVar)), app(SBool, "<", ref, fc.heapGet(env.Cur, nextVar))), Ty: tBool}
	case "arr":
		argN(1)
		v := env.eval(c.Args[0])
		return TVal{T: app(SInt, "sl_arr", v.T), Ty: tInt}
	case "off":
		argN(1)
		v := env.eval(c.Args[0])
		return TVal{T: app(SInt, "sl_off", v.T), Ty: tInt}
	case "errIs":
		argN(2)
		a := env.eval(c.Args[0])
		b := env.eval(c.Args[1])
		return TVal{T: fc.E.errIs(te, a.T, b.T), Ty: tBool}
	case "typeIs":
		// typeIs(v, "T"): dynamic type of interface value v is T (or *T)
		argN(2)
		v := env.eval(c.Args[0])
		lit, ok := c.Args[1].(SStrLit)
		if !ok {
			env.fail("typeIs needs a type name literal")
		}
		toks, err := lexSpec(lit.Val)
		if err != nil {
			env.fail("%v", err)
		}
		tp := &sparser{toks: toks, src: lit.Val}
		t, _ := env.resolveType(tp.typeExpr())
		return TVal{T: te.HasTag(t, v.T), Ty: tBool}
	case "unbox":
		argN(2)
		v := env.eval(c.Args[0])
		lit, ok := c.Args[1].(SStrLit)
		if !ok {
			env.fail("unbox needs a type name literal")
		}
		toks, _ := lexSpec(lit.Val)
		tp := &sparser{toks: toks, src: lit.Val}
		t, _ := env.resolveType(tp.typeExpr())
		return TVal{T: te.Unbox(t, v.T), Ty: t}
	case "i2f":
		argN(1)
		v := env.eval(c.Args[0])
		return TVal{T: fc.E.i2f(te, v.T, v.Ty != nil && isUnsigned(v.Ty)), Ty: tFloat}
	case "feq":
		argN(2)
		return TVal{T: te.FOp("eq", env.eval(c.Args[0]).T, env.eval(c.Args[1]).T), Ty: tBool}
	case "isNaN":
		argN(1)
		return TVal{T: te.FOp("isNaN", env.eval(c.Args[0]).T), Ty: tBool}
	case "isInf":
		argN(1)
		return TVal{T: te.FOp("isInf", env.eval(c.Args[0]).T), Ty: tBool}
	case "ceil":
		argN(1)
		return TVal{T: te.FOp("ceil", env.eval(c.Args[0]).T), Ty: tFloat}
	case "f2i":
		argN(1)
		return TVal{T: fc.E.f2i(te, env.eval(c.Args[0]).T), Ty: tInt}
	case "itoa", "atoi", "formatUint", "parseUint", "parseUintOk", "atoiOk", "hasPrefix", "cutPrefix", "concat", "strlen":
		var args []Term
		for _, a := range c.Args {
			args = append(args, env.eval(a).T)
		}
		t, ty := fc.E.strFn(te, c.Fun, args)
		return TVal{T: t, Ty: ty}
	case "setAdd":
		argN(2)
		s := env.eval(c.Args[0])
		k := env.eval(c.Args[1])
		return TVal{T: Store(s.T, k.T, TTrue), Ty: s.Ty, Kind: KSet}
	case "setRemove":
		argN(2)
		s := env.eval(c.Args[0])
		k := env.eval(c.Args[1])
		return TVal{T: Store(s.T, k.T, TFalse), Ty: s.Ty, Kind: KSet}
	case "emptySet":
		env.fail("emptySet needs a type; use forall")
	case "held", "rheld":
		// held(T.mu): write-locked; rheld(T.mu): locked for reading or writing
		// held(lockname): the monitor is held at this point
		argN(1)
		name := ""
		switch a := c.Args[0].(type) {
		case SIdent:
			name = a.Name
		case SSel:
			if id, ok := a.X.(SIdent); ok {
				name = id.Name + "." + a.Name
			}
		}
		if name == "" {
			env.fail("held needs a monitor name Type.field")
		}
		if c.Fun == "rheld" {
			return TVal{T: Or(fc.heapGet(env.Cur, heldVar(name)), fc.heapGet(env.Cur, rheldVar(name))), Ty: tBool}
		}
		return TVal{T: fc.heapGet(env.Cur, HeapVar{"$held." + name, SBool, HGhost}), Ty: tBool}
	case "addr":
		// addr(x.F): the address of the struct-typed field F of *x, as an identity
		argN(1)
		sel, ok := c.Args[0].(SSel)
		if !ok {
			env.fail("addr needs an argument of the form x.Field")
		}
		base := env.eval(sel.X)
		if base.Ty == nil {
			env.fail("addr: untyped base")
		}
		pt, ok := base.Ty.Underlying().(*types.Pointer)
		if !ok {
			env.fail("addr: %s is not a pointer", base.Ty)
		}
		st, ok := pt.Elem().Underlying().(*types.Struct)
		if !ok {
			env.fail("addr: %s is not a pointer to a struct", base.Ty)
		}
		idx, err := fieldIndex(st, sel.Name)
		if err != nil {
			env.fail("addr: %v", err)
		}
		return TVal{T: fc.interiorTerm(pt.Elem(), idx, base.T), Ty: types.NewPointer(st.Field(idx).Type())}
	case "spawned":
		// spawned("<contract key>"): a goroutine running that function was started (see fnvals.go)
		argN(1)
		lit, ok := c.Args[0].(SStrLit)
		if !ok {
			env.fail("spawned needs a contract key literal")
		}
		return TVal{T: fc.heapGet(env.Cur, spawnedVar(env.PkgPath, lit.Val)), Ty: tBool}
	case "keyWith":
		// keyWith(m, "F", v): the key of the entry of map m whose field F is v (see fnvals.go)
		argN(3)
		m := env.eval(c.Args[0])
		lit, ok := c.Args[1].(SStrLit)
		if !ok {
			env.fail("keyWith needs a field name literal")
		}
		if _, isMap := m.Ty.Underlying().(*types.Map); !isMap {
			env.fail("keyWith needs a map")
		}
		v := env.eval(c.Args[2])
		t, kt := fc.keyWith(env.Cur, m.T, m.Ty, lit.Val, v.T)
		return TVal{T: t, Ty: kt}
	case "fnIs":
		// fnIs(h, "full name"): the function value h is that function (or a method value of it)
		argN(2)
		v := env.eval(c.Args[0])
		lit, ok := c.Args[1].(SStrLit)
		if !ok {
			env.fail("fnIs needs a function name literal")
		}
		return TVal{T: Eq(fc.fnCodeOf(v.T), IntLit(fnCode(lit.Val))), Ty: tBool}
	case "recvOf":
		// recvOf(h, "*T"): the receiver bound in the method value h
		argN(2)
		v := env.eval(c.Args[0])
		lit, ok := c.Args[1].(SStrLit)
		if !ok {
			env.fail("recvOf needs a type name literal")
		}
		toks, _ := lexSpec(lit.Val)
		tp := &sparser{toks: toks, src: lit.Val}
		t, _ := env.resolveType(tp.typeExpr())
		return TVal{T: fc.fnRecvOf(v.T), Ty: t}
	case "asIface":
		// asIface(x, "I"): the value x converted to interface type I
		argN(2)
		v := env.eval(c.Args[0])
		lit, ok := c.Args[1].(SStrLit)
		if !ok {
			env.fail("asIface needs an interface type name literal")
		}
		toks, _ := lexSpec(lit.Val)
		tp := &sparser{toks: toks, src: lit.Val}
		it, _ := env.resolveType(tp.typeExpr())
		return TVal{T: te.Box(v.Ty, v.T), Ty: it}
	}
	// pure / uninterpreted spec functions
	if pd := fc.E.pure(env.PkgPath, c.Fun); pd != nil {
		if len(pd.Params) != len(c.Args) {
			env.fail("%s expects %d arguments", c.Fun, len(pd.Params))
		}
		var args []TVal
		for _, a := range c.Args {
			args = append(args, env.eval(a))
		}
		defEnv := *env
		defEnv.PkgPath = pd.PkgPath
		if pd.Uninterp {
			var sorts []string
			var ts []Term
			for i, p := range pd.Params {
				pt, k := defEnv.resolveType(p.Type)
				sorts = append(sorts, defEnv.sortOfKind(pt, k))
				a := args[i]
				if a.Nil {
					a.T = te.Zero(pt)
				}
				ts = append(ts, a.T)
			}
			rt, rk := defEnv.resolveType(pd.Ret)
			name := "u." + pd.Name
			te.G.DeclareFun(name, sorts, defEnv.sortOfKind(rt, rk))
			fc.E.needAxioms(fc, pd.PkgPath)
			if len(ts) == 0 {
				return TVal{T: Term{name, defEnv.sortOfKind(rt, rk)}, Ty: rt, Kind: rk}
			}
			return TVal{T: app(defEnv.sortOfKind(rt, rk), name, ts...), Ty: rt, Kind: rk}
		}
		if env.depth > 30 {
			env.fail("pure function recursion in %s", c.Fun)
		}
		n := defEnv
		n.depth = env.depth + 1
		n.Vars = map[string]TVal{}
		n.Macros = map[string]SExpr{}
		for i, p := range pd.Params {
			pt, k := n.resolveType(p.Type)
			a := args[i]
			if a.Nil {
				a.T = te.Zero(pt)
			}
			a.Ty = pt
			a.Kind = k
			n.Vars[p.Name] = a
		}
		r := n.eval(pd.Body)
		rt, rk := n.resolveType(pd.Ret)
		r.Ty, r.Kind = rt, rk
		return r
	}
	env.fail("unknown spec function %s", c.Fun)
	return TVal{}
}

func (env *SpecEnv) method(m SMethod) TVal {
	fc := env.FC
	te := fc.TE
	v := env.eval(m.X)
	if v.Ty != nil && isTime(types.Unalias(v.Ty)) {
		switch m.Name {
		case "IsZero":
			return TVal{T: Eq(v.T, IntLit(0)), Ty: tBool}
		case "After":
			o := env.eval(m.Args[0])
			return TVal{T: app(SBool, ">", v.T, o.T), Ty: tBool}
		case "Before":
			o := env.eval(m.Args[0])
			return TVal{T: app(SBool, "<", v.T, o.T), Ty: tBool}
		case "Equal":
			o := env.eval(m.Args[0])
			return TVal{T: Eq(v.T, o.T), Ty: tBool}
		case "Add":
			o := env.eval(m.Args[0])
			return TVal{T: app(SInt, "+", v.T, o.T), Ty: v.Ty}
		case "Sub":
			o := env.eval(m.Args[0])
			return TVal{T: app(SInt, "-", v.T, o.T), Ty: tInt}
		}
	}
	// pure interface / struct methods declared as uninterpreted functions of the receiver value
	if v.Ty != nil {
		if name, ret, ok := fc.E.pureMethod(v.Ty, m.Name); ok {
			var args []Term
			args = append(args, v.T)
			sorts := []string{v.T.Sort}
			for _, a := range m.Args {
				av := env.eval(a)
				args = append(args, av.T)
				sorts = append(sorts, av.T.Sort)
			}
			te.G.DeclareFun(name, sorts, te.SortOf(ret))
			return TVal{T: app(te.SortOf(ret), name, args...), Ty: ret}
		}
	}
	env.fail("unsupported method %s in spec", m.Name)
	return TVal{}
}
