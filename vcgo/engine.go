package main

import (
	"fmt"
	"go/types"
	"sort"
	"strings"

	"golang.org/x/tools/go/ssa"
)

type Engine struct {
	P        *Program
	CS       *Contracts
	closures map[string]*FnVal
	// names of parameters and locals recorded in the ledger, per function (rename resilience)
	recorded map[string]FnNames
	fnByKey  map[string]*ssa.Function
	writes   map[*ssa.Function]map[string]HeapVar
	writing  map[*ssa.Function]bool
	Noop     map[string]bool
	PureM    map[string]bool // "pkgpath.Type.Method" declared pure
	G        *Global         // int-mode global
	TE       *TypeEnv
	GBV      *Global
	TEBV     *TypeEnv
	immHeaps map[string]bool
	acq      map[*ssa.Function]int
	acqBusy  map[*ssa.Function]bool
	axiomsDone map[string]bool
}

func newEngine(p *Program, cs *Contracts) *Engine {
	e := &Engine{P: p, CS: cs, closures: map[string]*FnVal{}, fnByKey: map[string]*ssa.Function{}, writes: map[*ssa.Function]map[string]HeapVar{}, writing: map[*ssa.Function]bool{}, Noop: map[string]bool{}, PureM: map[string]bool{}, axiomsDone: map[string]bool{}, acq: map[*ssa.Function]int{}, acqBusy: map[*ssa.Function]bool{}}
	e.G = newGlobal()
	e.TE = newTypeEnv(e.G, false)
	e.GBV = newGlobal()
	e.TEBV = newTypeEnv(e.GBV, true)
	for _, pkg := range p.Pkgs {
		sp := p.SSA.Package(pkg.Types)
		if sp == nil {
			continue
		}
		var visit func(fn *ssa.Function)
		visit = func(fn *ssa.Function) {
			e.fnByKey[fnPkgPath(fn)+"."+fnKey(fn)] = fn
			for _, a := range fn.AnonFuncs {
				visit(a)
			}
		}
		for _, m := range sp.Members {
			switch x := m.(type) {
			case *ssa.Function:
				visit(x)
			case *ssa.Type:
				for _, t := range []types.Type{x.Type(), types.NewPointer(x.Type())} {
					ms := p.SSA.MethodSets.MethodSet(t)
					for i := 0; i < ms.Len(); i++ {
						if fn := p.SSA.MethodValue(ms.At(i)); fn != nil && fn.Pkg == sp && fn.Synthetic == "" {
							visit(fn)
						}
					}
				}
			}
		}
	}
	return e
}

func (e *Engine) contractFor(fn *ssa.Function) *Contract {
	if fn == nil {
		return nil
	}
	o := fn
	if fn.Origin() != nil {
		o = fn.Origin()
	}
	return e.CS.ByKey[fnPkgPath(o)+"."+fnKey(o)]
}

// ifaceContract returns the contract attached to an interface method.
func (e *Engine) ifaceContract(recv types.Type, method string) *Contract {
	n, ok := types.Unalias(recv).(*types.Named)
	if !ok || n.Obj().Pkg() == nil {
		return nil
	}
	return e.CS.ByKey[n.Obj().Pkg().Path()+".("+n.Obj().Name()+")."+method]
}

func (e *Engine) ghost(pkgPath, name string) *GhostDecl {
	for _, g := range e.CS.Ghosts {
		if g.Name == name && (g.PkgPath == pkgPath || true) {
			return g
		}
	}
	return nil
}

func (e *Engine) pure(pkgPath, name string) *PureDecl {
	if pd, ok := e.CS.Pures[pkgPath+"."+name]; ok {
		return pd
	}
	for k, pd := range e.CS.Pures {
		if strings.HasSuffix(k, "."+name) {
			return pd
		}
	}
	return nil
}

// pureMethod: a method declared (in a contract file) to be a pure function of
// its receiver value, usable in specs and at invoke sites.
func (e *Engine) pureMethod(recv types.Type, method string) (string, types.Type, bool) {
	t := recv
	n, ok := types.Unalias(t).(*types.Named)
	if !ok {
		if p, ok2 := t.(*types.Pointer); ok2 {
			n, ok = types.Unalias(p.Elem()).(*types.Named)
		}
		if !ok {
			return "", nil, false
		}
	}
	if n.Obj().Pkg() == nil {
		return "", nil, false
	}
	key := n.Obj().Pkg().Path() + "." + n.Obj().Name() + "." + method
	if !e.PureM[key] {
		return "", nil, false
	}
	obj, _, _ := types.LookupFieldOrMethod(recv, true, n.Obj().Pkg(), method)
	f, ok := obj.(*types.Func)
	if !ok {
		return "", nil, false
	}
	sig := f.Type().(*types.Signature)
	if sig.Results().Len() != 1 {
		return "", nil, false
	}
	return "m." + n.Obj().Name() + "." + method, sig.Results().At(0).Type(), true
}

func (e *Engine) nonNilField(v ssa.Value) bool {
	fa, ok := v.(*ssa.FieldAddr)
	if !ok {
		return false
	}
	st := fa.X.Type().Underlying().(*types.Pointer).Elem()
	n, ok := types.Unalias(st).(*types.Named)
	if !ok || n.Obj().Pkg() == nil {
		return false
	}
	f := st.Underlying().(*types.Struct).Field(fa.Field)
	return e.CS.NonNil[n.Obj().Pkg().Path()+"."+n.Obj().Name()+"."+f.Name()]
}

// immFn: an immutable struct field is a global function of the object
// reference instead of a cell of the mutable heap.
func (e *Engine) immFn(te *TypeEnv, st types.Type, field int) (string, bool) {
	n, ok := types.Unalias(st).(*types.Named)
	if !ok || n.Obj().Pkg() == nil {
		return "", false
	}
	f := st.Underlying().(*types.Struct).Field(field)
	if !e.CS.Immutable[n.Obj().Pkg().Path()+"."+n.Obj().Name()+"."+f.Name()] {
		return "", false
	}
	name := "imm." + te.Struct(st).Key + "." + f.Name()
	te.G.DeclareFun(name, []string{SInt}, te.SortOf(f.Type()))
	return name, true
}

// refinesAxioms: for "refines (*T).M I.M" declarations, the interface-level
// pure method applied to a boxed *T equals the body of (*T).M evaluated
// symbolically; the body may read immutable fields only (anything else needs
// a fresh symbol, which quiet mode rejects).
func (e *Engine) refinesAxioms(fc *FnCtx) {
	key := "refines"
	if fc.TE.BV {
		key += "#bv"
	}
	if e.axiomsDone[key] {
		return
	}
	e.axiomsDone[key] = true
	for _, rd := range e.CS.Refines {
		fn := e.fnByKey[rd.PkgPath+"."+rd.Impl]
		if fn == nil {
			panic(unsupported{"refines: no function " + rd.Impl})
		}
		parts := strings.SplitN(rd.Iface, ".", 2)
		pkg := e.P.ByPath[rd.PkgPath]
		obj := pkg.Types.Scope().Lookup(parts[0])
		if obj == nil {
			panic(unsupported{"refines: no interface " + parts[0]})
		}
		name, ret, ok := e.pureMethod(obj.Type(), parts[1])
		if !ok {
			panic(unsupported{"refines: " + rd.Iface + " is not declared pure-method"})
		}
		recvT := fn.Signature.Recv().Type()
		S := fc.S
		sub := &FnCtx{E: e, Fn: fn, S: S, TE: fc.TE, vals: map[ssa.Value]Val{}, top: fc.top, depth: 1, notes: fc.notes, site: "refines", held: fc.held}
		sub.vals[fn.Params[0]] = tv(Term{"r!m", SInt})
		quiet := S.Quiet
		S.Quiet = true
		var res []Val
		var exit *State
		func() {
			defer func() { S.Quiet = quiet }()
			exit, res = sub.run(&State{PC: TTrue, Heap: map[string]Term{}})
		}()
		if exit == nil || len(res) != 1 {
			panic(unsupported{"refines: " + rd.Impl + " does not return one value"})
		}
		fc.TE.G.DeclareFun(name, []string{SIfc}, fc.TE.SortOf(ret))
		boxed := fc.TE.Box(recvT, Term{"r!m", SInt})
		ax := fmt.Sprintf("(assert (forall ((r!m Int)) (! (= (%s %s) %s) :pattern ((%s %s)))))", name, boxed.S, res[0].T.S, name, boxed.S)
		fc.TE.G.AddAxiom("refines."+rd.Impl, ax, name)
	}
}

// needAxioms registers the //@ axiom declarations of a package (translated once per Global).
func (e *Engine) needAxioms(fc *FnCtx, pkgPath string) {
	key := pkgPath
	if fc.TE.BV {
		key += "#bv"
	}
	if e.axiomsDone[key] {
		return
	}
	e.axiomsDone[key] = true
	// exported lemmas: proved by their own obligations, available to everything declared after them
	for _, k := range e.CS.sortedKeys() {
		ct := e.CS.ByKey[k]
		if !ct.Lemma || ct.PkgPath != pkgPath || ct.Opts["export"] == "" || (ct.Mode == "bv") != fc.TE.BV {
			continue
		}
		t := e.lemmaFormula(fc, ct, "", Term{})
		var needs []string
		for _, pd := range e.CS.Pures {
			if pd.Uninterp && containsSym(t.S, "u."+pd.Name) {
				needs = append(needs, "u."+pd.Name)
			}
		}
		if len(needs) == 0 {
			needs = []string{""}
		}
		for _, n := range needs {
			nn := []string{}
			if n != "" {
				nn = []string{n}
			}
			fc.TE.G.axioms = append(fc.TE.G.axioms, Axiom{Name: "lemma." + ct.Key + "." + n, Text: "(assert " + t.S + ")", Needs: nn, Seq: ct.Seq})
		}
	}
	for _, ax := range e.CS.Axioms {
		if ax.PkgPath != pkgPath {
			continue
		}
		st := &State{PC: TTrue, Heap: map[string]Term{}}
		env := fc.specEnv(st)
		env.PkgPath = pkgPath
		env.Vars = map[string]TVal{}
		env.Macros = map[string]SExpr{}
		var t Term
		func() {
			defer func() {
				if r := recover(); r != nil {
					if se, ok := r.(specErr); ok {
						panic(unsupported{fmt.Sprintf("axiom %s: %s", ax.Name, se.msg)})
					}
					panic(r)
				}
			}()
			t = env.boolT(ax.Expr)
		}()
		// emitted whenever any uninterpreted spec function it mentions occurs
		var needs []string
		for _, pd := range e.CS.Pures {
			if pd.Uninterp && containsSym(t.S, "u."+pd.Name) {
				needs = append(needs, "u."+pd.Name)
			}
		}
		if len(needs) == 0 {
			// no spec function: needed only where every library function it mentions occurs
			var all []string
			for _, fn := range fc.TE.G.funcOrder {
				if containsSym(t.S, fn) {
					all = append(all, fn)
				}
			}
			fc.TE.G.AddAxiom("ax."+ax.Name, "(assert "+t.S+")", all...)
		} else {
			// one copy per needed symbol so that any of them triggers emission
			for _, n := range needs {
				fc.TE.G.AddAxiom("ax."+ax.Name+"."+n, "(assert "+t.S+")", n)
			}
		}
	}
}

// ---------------------------------------------------------------------------
// Library theory: strings, errors, numeric conversions

func (e *Engine) strLen(te *TypeEnv, s Term) Term {
	te.G.DeclareFun("strlen", []string{SStr}, SInt)
	te.G.AddAxiom("strlen.nonneg", "(assert (forall ((s Str)) (! (>= (strlen s) 0) :pattern ((strlen s)))))", "strlen")
	te.G.AddAxiom("strlen.empty", "(assert (forall ((s Str)) (! (= (= (strlen s) 0) (= s str!empty)) :pattern ((strlen s)))))", "strlen", "str!empty")
	te.G.StrLit("")
	r := app(SInt, "strlen", s)
	if te.BV {
		return app(SBV64, "(_ int2bv 64)", r)
	}
	return r
}

func (e *Engine) strConcat(te *TypeEnv, a, b Term) Term {
	te.G.DeclareFun("str.concat", []string{SStr, SStr}, SStr)
	// left cancellation and prefix facts
	te.G.AddAxiom("concat.cancel", "(assert (forall ((p Str) (a Str) (b Str)) (! (=> (= (str.concat p a) (str.concat p b)) (= a b)) :pattern ((str.concat p a) (str.concat p b)))))", "str.concat")
	te.G.DeclareFun("str.hasPrefix", []string{SStr, SStr}, SBool)
	te.G.DeclareFun("str.cutPrefix", []string{SStr, SStr}, SStr)
	te.G.AddAxiom("concat.prefix", "(assert (forall ((p Str) (a Str)) (! (and (str.hasPrefix (str.concat p a) p) (= (str.cutPrefix (str.concat p a) p) a)) :pattern ((str.concat p a)))))", "str.concat")
	te.G.AddAxiom("prefix.concat", "(assert (forall ((s Str) (p Str)) (! (=> (str.hasPrefix s p) (= (str.concat p (str.cutPrefix s p)) s)) :pattern ((str.hasPrefix s p)))))", "str.hasPrefix")
	return app(SStr, "str.concat", a, b)
}

func (e *Engine) strFn(te *TypeEnv, name string, args []Term) (Term, types.Type) {
	g := te.G
	switch name {
	case "itoa":
		g.DeclareFun("str.itoa", []string{SInt}, SStr)
		g.DeclareFun("str.atoi", []string{SStr}, SInt)
		g.DeclareFun("str.atoiOk", []string{SStr}, SBool)
		g.AddAxiom("atoi.itoa", "(assert (forall ((n Int)) (! (and (= (str.atoi (str.itoa n)) n) (str.atoiOk (str.itoa n))) :pattern ((str.itoa n)))))", "str.itoa")
		return app(SStr, "str.itoa", args[0]), tString
	case "atoi":
		g.DeclareFun("str.atoi", []string{SStr}, SInt)
		return app(SInt, "str.atoi", args[0]), tInt
	case "atoiOk":
		g.DeclareFun("str.atoiOk", []string{SStr}, SBool)
		return app(SBool, "str.atoiOk", args[0]), tBool
	case "formatUint":
		g.DeclareFun("str.formatUint", []string{SInt}, SStr)
		g.DeclareFun("str.parseUint", []string{SStr}, SInt)
		g.DeclareFun("str.parseUintOk", []string{SStr}, SBool)
		g.AddAxiom("parse.format", "(assert (forall ((n Int)) (! (=> (>= n 0) (and (= (str.parseUint (str.formatUint n)) n) (str.parseUintOk (str.formatUint n)))) :pattern ((str.formatUint n)))))", "str.formatUint")
		g.AddAxiom("parseUint.nonneg", "(assert (forall ((s Str)) (! (>= (str.parseUint s) 0) :pattern ((str.parseUint s)))))", "str.parseUint")
		return app(SStr, "str.formatUint", args[0]), tString
	case "parseUint":
		g.DeclareFun("str.parseUint", []string{SStr}, SInt)
		g.AddAxiom("parseUint.nonneg", "(assert (forall ((s Str)) (! (>= (str.parseUint s) 0) :pattern ((str.parseUint s)))))", "str.parseUint")
		return app(SInt, "str.parseUint", args[0]), types.Typ[types.Uint64]
	case "parseUintOk":
		g.DeclareFun("str.parseUintOk", []string{SStr}, SBool)
		return app(SBool, "str.parseUintOk", args[0]), tBool
	case "hasPrefix":
		e.strConcat(te, args[0], args[1])
		return app(SBool, "str.hasPrefix", args[0], args[1]), tBool
	case "cutPrefix":
		e.strConcat(te, args[0], args[1])
		return app(SStr, "str.cutPrefix", args[0], args[1]), tString
	case "concat":
		return e.strConcat(te, args[0], args[1]), tString
	case "strlen":
		return e.strLen(te, args[0]), tInt
	}
	panic("strFn " + name)
}

func (e *Engine) errIs(te *TypeEnv, err, target Term) Term {
	te.G.DeclareFun("err.is", []string{SIfc, SIfc}, SBool)
	te.G.AddAxiom("err.is.refl", "(assert (forall ((a Ifc)) (! (=> (not (= a ifc_nil)) (err.is a a)) :pattern ((err.is a a)))))", "err.is")
	te.G.AddAxiom("err.is.nil", "(assert (forall ((b Ifc)) (! (=> (not (= b ifc_nil)) (not (err.is ifc_nil b))) :pattern ((err.is ifc_nil b)))))", "err.is")
	return app(SBool, "err.is", err, target)
}

func (e *Engine) i2f(te *TypeEnv, v Term, unsigned bool) Term {
	if te.BV {
		if unsigned {
			return app(SF64, "(_ to_fp_unsigned 11 53) RNE", v)
		}
		return app(SF64, "(_ to_fp 11 53) RNE", v)
	}
	te.G.DeclareFun("i2f", []string{SInt}, te.FSort())
	return app(te.FSort(), "i2f", v)
}

func (e *Engine) f2i(te *TypeEnv, v Term) Term {
	if te.BV {
		// Go on amd64 (CVTTSD2SQ): out-of-range and NaN give 0x8000000000000000
		return Term{fmt.Sprintf("(ite (and (not (fp.isNaN %s)) (fp.lt %s ((_ to_fp 11 53) RNE 9223372036854775808.0)) (fp.geq %s ((_ to_fp 11 53) RNE (- 9223372036854775808.0)))) ((_ fp.to_sbv 64) RTZ %s) #x8000000000000000)", v.S, v.S, v.S, v.S), SBV64}
	}
	te.G.DeclareFun("f2i", []string{te.FSort()}, SInt)
	return app(SInt, "f2i", v)
}

// ---------------------------------------------------------------------------
// Write sets (heap variables a function may modify), location-insensitive.

func (e *Engine) fnWrites(fc *FnCtx, fn *ssa.Function, depth int) map[string]HeapVar {
	if w, ok := e.writes[fn]; ok && !fc.TE.BV {
		return w
	}
	ws := map[string]HeapVar{}
	if e.writing[fn] || depth > 12 {
		return ws
	}
	if len(fn.Blocks) == 0 {
		return ws
	}
	e.writing[fn] = true
	sub := &FnCtx{E: e, Fn: fn, TE: fc.TE, S: fc.S, top: fc.top, notes: fc.notes}
	for _, b := range fn.Blocks {
		for _, in := range b.Instrs {
			e.instrWrites(sub, in, ws, depth+1)
		}
	}
	for _, a := range fn.AnonFuncs {
		for k, v := range e.fnWrites(fc, a, depth+1) {
			ws[k] = v
		}
	}
	delete(e.writing, fn)
	e.dropImm(ws)
	if !fc.TE.BV {
		e.writes[fn] = ws
	}
	return ws
}

func (e *Engine) isNoop(fn *ssa.Function) bool {
	if fn == nil {
		return false
	}
	pp := fnPkgPath(fn)
	if strings.HasPrefix(pp, "go.uber.org/zap") || strings.HasPrefix(pp, "github.com/prometheus/") || pp == "github.com/andydunstall/piko/pkg/log" {
		return true
	}
	return e.Noop[pp+"."+fnKey(fn)]
}

func isNoopIface(t types.Type) bool {
	n, ok := types.Unalias(t).(*types.Named)
	if !ok || n.Obj().Pkg() == nil {
		return false
	}
	pp := n.Obj().Pkg().Path()
	return pp == "github.com/andydunstall/piko/pkg/log" || strings.HasPrefix(pp, "go.uber.org/zap") || strings.HasPrefix(pp, "github.com/prometheus/")
}

func (e *Engine) instrWrites(fc *FnCtx, in ssa.Instruction, ws map[string]HeapVar, depth int) {
	te := fc.TE
	add := func(hv HeapVar) { ws[hv.Name] = hv }
	switch x := in.(type) {
	case *ssa.Store:
		e.addrWrites(fc, x.Addr, ws)
	case *ssa.MapUpdate:
		mt := x.Map.Type().Underlying().(*types.Map)
		add(te.MapDomHeap(mt))
		add(te.MapValHeap(mt))
	case *ssa.Alloc:
		add(nextVar)
		t := x.Type().(*types.Pointer).Elem()
		if isStruct(t) {
			si := te.Struct(t)
			for i := range si.Fields {
				add(te.FieldHeap(t, i))
			}
		} else {
			add(te.CellHeap(t))
		}
	case *ssa.MakeMap:
		add(nextVar)
		add(te.MapDomHeap(x.Type().Underlying().(*types.Map)))
	case *ssa.MakeSlice:
		add(nextVar)
		add(te.ElemHeap(x.Type().Underlying().(*types.Slice).Elem()))
	case *ssa.MakeClosure:
	case *ssa.Range:
		if mt, ok := x.X.Type().Underlying().(*types.Map); ok {
			add(seenVar(x, te.SortOf(mt.Key())))
		}
	case *ssa.Next:
		if rng, ok := x.Iter.(*ssa.Range); ok {
			if mt, ok := rng.X.Type().Underlying().(*types.Map); ok {
				add(seenVar(rng, te.SortOf(mt.Key())))
			}
		}
	case ssa.CallInstruction:
		c := x.Common()
		if _, isGo := in.(*ssa.Go); isGo {
			return
		}
		if b, ok := c.Value.(*ssa.Builtin); ok {
			switch b.Name() {
			case "append":
				add(nextVar)
				add(te.ElemHeap(c.Args[0].Type().Underlying().(*types.Slice).Elem()))
			case "delete":
				mt := c.Args[0].Type().Underlying().(*types.Map)
				add(te.MapDomHeap(mt))
			case "copy":
				if sl, ok := c.Args[0].Type().Underlying().(*types.Slice); ok {
					add(te.ElemHeap(sl.Elem()))
				}
			}
			return
		}
		if c.IsInvoke() {
			if n, ok := types.Unalias(c.Value.Type()).(*types.Named); ok && n.Obj().Pkg() != nil && n.Obj().Pkg().Path() == "github.com/ugorji/go/codec" && c.Method.Name() == "Encode" {
				for _, hv := range bufWrites("github.com/ugorji/go/codec.(*Encoder).Encode") {
					add(hv)
				}
				return
			}
			if isNoopIface(c.Value.Type()) {
				return
			}
			if ct := e.ifaceContract(c.Value.Type(), c.Method.Name()); ct != nil {
				for _, n := range ct.ModAll {
					if hv, ok := e.heapByName(fc, ct.PkgPath, n); ok {
						add(hv)
					}
				}
			}
			return
		}
		callee := c.StaticCallee()
		if callee == nil {
			// closure held in a value: known closures are handled where they are called
			if mc, ok := c.Value.(*ssa.MakeClosure); ok {
				callee = mc.Fn.(*ssa.Function)
			} else {
				// a call through a function value: the function-typed contract named by
				// "opt dyncall" says what it may modify
				if fc.top != nil && fc.top.C != nil {
					if key, ok := fc.top.C.Opts["dyncall"]; ok {
						if ct := e.CS.ByKey[fc.top.C.PkgPath+"."+key]; ct != nil {
							for _, n := range ct.ModAll {
								if hv, ok := e.heapByName(fc, ct.PkgPath, n); ok {
									add(hv)
								}
							}
						}
					}
				}
				return
			}
		}
		if e.isNoop(callee) {
			return
		}
		if ct := e.contractFor(callee); ct != nil && (ct.Trusted != "" || len(callee.Blocks) == 0) {
			for _, n := range ct.ModAll {
				if hv, ok := e.heapByName(fc, ct.PkgPath, n); ok {
					add(hv)
				}
			}
			add(nextVar)
			return
		}
		if spec := libSpecWrites(fc, callee, c); spec != nil {
			for _, hv := range spec {
				add(hv)
			}
			return
		}
		if len(callee.Blocks) == 0 && e.contractFor(callee) == nil {
			// what an unspecified callee may write through its arguments (mirrors the havoc at the call)
			var addPointee func(t types.Type)
			addPointee = func(t types.Type) {
				pt, ok := t.Underlying().(*types.Pointer)
				if !ok {
					return
				}
				if isStruct(pt.Elem()) {
					if n, ok := types.Unalias(pt.Elem()).(*types.Named); ok && n.Obj().Pkg() != nil && strings.HasPrefix(n.Obj().Pkg().Path(), e.P.Module) {
						for i := range te.Struct(pt.Elem()).Fields {
							add(te.FieldHeap(pt.Elem(), i))
						}
					}
				} else {
					add(te.CellHeap(pt.Elem()))
				}
			}
			for _, a := range c.Args {
				switch t := a.Type().Underlying().(type) {
				case *types.Pointer:
					addPointee(a.Type())
				case *types.Slice:
					add(te.ElemHeap(t.Elem()))
				case *types.Interface:
					if mi, ok := a.(*ssa.MakeInterface); ok {
						addPointee(mi.X.Type())
					}
				}
			}
		}
		if len(callee.Blocks) == 0 {
			for _, d := range e.CS.HavocOn {
				if strings.HasPrefix(fullName(callee), d.Prefix) {
					for _, g := range d.Ghosts {
						if hv, ok := e.heapByName(fc, d.PkgPath, g); ok {
							add(hv)
						}
					}
				}
			}
		}
		if len(callee.Blocks) == 0 && touchesBuffer(callee) {
			add(bufLenVar)
			add(bufItemsVar)
			add(bufEndVar)
			return
		}
		for k, v := range e.fnWrites(fc, callee, depth) {
			ws[k] = v
		}
		// closures passed as arguments may be called by the callee
		for _, a := range c.Args {
			if mc, ok := a.(*ssa.MakeClosure); ok {
				for k, v := range e.fnWrites(fc, mc.Fn.(*ssa.Function), depth) {
					ws[k] = v
				}
			}
		}
	}
}

func (e *Engine) addrWrites(fc *FnCtx, addr ssa.Value, ws map[string]HeapVar) {
	te := fc.TE
	switch a := addr.(type) {
	case *ssa.FieldAddr:
		// walk down to the root
		root := a
		for {
			if inner, ok := root.X.(*ssa.FieldAddr); ok {
				root = inner
				continue
			}
			break
		}
		switch base := root.X.(type) {
		case *ssa.IndexAddr:
			e.addrWrites(fc, base, ws)
			return
		case *ssa.Alloc:
			if !isStruct(base.Type().(*types.Pointer).Elem()) {
				e.addrWrites(fc, base, ws)
				return
			}
		}
		st := root.X.Type().Underlying().(*types.Pointer).Elem()
		hv := te.FieldHeap(st, root.Field)
		ws[hv.Name] = hv
	case *ssa.IndexAddr:
		if sl, ok := a.X.Type().Underlying().(*types.Slice); ok {
			hv := te.ElemHeap(sl.Elem())
			ws[hv.Name] = hv
		}
	case *ssa.Alloc:
		t := a.Type().(*types.Pointer).Elem()
		if isStruct(t) {
			si := te.Struct(t)
			for i := range si.Fields {
				hv := te.FieldHeap(t, i)
				ws[hv.Name] = hv
			}
		} else {
			hv := te.CellHeap(t)
			ws[hv.Name] = hv
		}
	case *ssa.Global:
		hv := fc.globalHeap(a)
		ws[hv.Name] = hv
	default:
		// pointer held in a value: pointee type decides
		t := addr.Type().Underlying().(*types.Pointer).Elem()
		if isStruct(t) {
			si := te.Struct(t)
			for i := range si.Fields {
				hv := te.FieldHeap(t, i)
				ws[hv.Name] = hv
			}
		} else {
			hv := te.CellHeap(t)
			ws[hv.Name] = hv
		}
	}
}

// heapByName resolves "T.f" (a struct field of the contract's package) or a
// raw heap variable name to a heap variable.
func (e *Engine) heapByName(fc *FnCtx, pkgPath, name string) (HeapVar, bool) {
	if strings.HasPrefix(name, "$") {
		g := e.ghost(pkgPath, name[1:])
		if g != nil {
			env := fc.specEnv(&State{PC: TTrue, Heap: map[string]Term{}})
			env.PkgPath = pkgPath
			env.PkgPath = g.PkgPath // a ghost's type is written in its declaring package
			gt, kind := env.resolveType(g.Type)
			return HeapVar{"$g." + name[1:], env.sortOfKind(gt, kind), HGhost}, true
		}
	}
	parts := strings.Split(name, ".")
	if len(parts) == 2 {
		if p := e.P.ByPath[pkgPath]; p != nil {
			if obj := p.Types.Scope().Lookup(parts[0]); obj != nil {
				if st, ok := obj.Type().Underlying().(*types.Struct); ok {
					for i := 0; i < st.NumFields(); i++ {
						if st.Field(i).Name() == parts[1] {
							return fc.TE.FieldHeap(obj.Type(), i), true
						}
					}
				}
			}
		}
	}
	return HeapVar{}, false
}

func sortedHeapNames(ws map[string]HeapVar) []string {
	var ns []string
	for n := range ws {
		ns = append(ns, n)
	}
	sort.Strings(ns)
	return ns
}
