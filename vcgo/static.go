package main

import "strings"

type StaticObl struct {
	Name    string
	Clause  string
	Verdict string // "unsat" = holds
	Detail  string
}

func (e *Engine) applyDecls() {
	for _, n := range e.CS.Noops {
		e.Noop[n] = true
	}
	for _, n := range e.CS.PureMethods {
		e.PureM[n] = true
	}
	e.immHeaps = map[string]bool{}
	for k := range e.CS.Immutable {
		// k = pkgpath.Type.Field
		i := strings.LastIndex(k, ".")
		j := strings.LastIndex(k[:i], ".")
		pkg, tn, fn := k[:j], k[j+1:i], k[i+1:]
		p := e.P.ByPath[pkg]
		if p == nil {
			continue
		}
		obj := p.Types.Scope().Lookup(tn)
		if obj == nil {
			continue
		}
		for _, te := range []*TypeEnv{e.TE, e.TEBV} {
			e.immHeaps["H."+te.Struct(obj.Type()).Key+"."+fn] = true
		}
	}
}

func (e *Engine) dropImm(ws map[string]HeapVar) {
	for k := range ws {
		if e.immHeaps[k] {
			delete(ws, k)
		}
	}
}

// staticObligations: obligations decided on the SSA call graph / by dataflow
// rather than by SMT (callers-only, immutable fields, lock order, guarded-by).
func (e *Engine) staticObligations(prop string) []StaticObl {
	return nil
}
