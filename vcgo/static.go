package main

import (
	"fmt"
	"sort"
	"strings"

	"golang.org/x/tools/go/ssa"
)

type StaticObl struct {
	Name    string
	Clause  string
	Verdict string // "unsat" = holds
	Detail  string
}

func (e *Engine) applyDecls() {
	for _, n := range e.CS.Noops {
		e.Noop[n] = true
	}
	for _, n := range e.CS.PureMethods {
		e.PureM[n] = true
	}
	e.immHeaps = map[string]bool{}
	for k := range e.CS.Immutable {
		// k = pkgpath.Type.Field
		i := strings.LastIndex(k, ".")
		j := strings.LastIndex(k[:i], ".")
		pkg, tn, fn := k[:j], k[j+1:i], k[i+1:]
		p := e.P.ByPath[pkg]
		if p == nil {
			continue
		}
		obj := p.Types.Scope().Lookup(tn)
		if obj == nil {
			continue
		}
		for _, te := range []*TypeEnv{e.TE, e.TEBV} {
			e.immHeaps["H."+te.Struct(obj.Type()).Key+"."+fn] = true
		}
	}
}

func (e *Engine) dropImm(ws map[string]HeapVar) {
	for k := range ws {
		if e.immHeaps[k] {
			delete(ws, k)
		}
	}
}

// staticObligations: obligations decided on the SSA of the whole module rather
// than by SMT: "callers-only" (ownership by call-graph closure) - a function
// is called, or taken as a value, only inside the listed callers.
func (e *Engine) staticObligations(prop string) []StaticObl {
	var out []StaticObl
	for _, co := range e.CS.CallersOnly {
		serves := false
		for _, s := range co.Serves {
			if s == prop {
				serves = true
			}
		}
		if !serves {
			continue
		}
		allowed := map[string]bool{}
		for _, c := range co.Callers {
			allowed[c] = true
		}
		name := strings.TrimPrefix(co.PkgPath, "github.com/andydunstall/piko/") + "." + co.Callee + "#callers-only"
		if co.Label != "" {
			name += "[" + co.Label + "]"
		}
		var bad []string
		found := false
		var keys []string
		for k := range e.fnByKey {
			keys = append(keys, k)
		}
		sort.Strings(keys)
		isTarget := func(fn *ssa.Function) bool {
			if fn == nil {
				return false
			}
			o := fn
			if fn.Origin() != nil {
				o = fn.Origin()
			}
			return fnPkgPath(o) == co.PkgPath && fnKey(o) == co.Callee
		}
		for _, k := range keys {
			fn := e.fnByKey[k]
			if isTarget(fn) {
				found = true
			}
			caller := strings.TrimPrefix(fnPkgPath(fn), "github.com/andydunstall/piko/") + "." + fnKey(fn)
			short := fnKey(fn)
			for _, b := range fn.Blocks {
				for _, in := range b.Instrs {
					hit := false
					if ci, ok := in.(ssa.CallInstruction); ok {
						c := ci.Common()
						if isTarget(c.StaticCallee()) {
							hit = true
						}
						// interface method named like the callee "(I).M" of the same package
						if c.IsInvoke() && strings.HasPrefix(co.Callee, "(") && !strings.HasPrefix(co.Callee, "(*") {
							if n, ok := c.Value.Type().(interface{ Obj() interface{ Name() string } }); ok {
								_ = n
							}
							key := ifaceKey(c)
							if key == co.PkgPath+"."+co.Callee {
								hit = true
							}
						}
					}
					// the function taken as a value (method value, closure argument)
					for _, op := range in.Operands(nil) {
						if op == nil || *op == nil {
							continue
						}
						if f, ok := (*op).(*ssa.Function); ok && isTarget(f) {
							if ci, isCall := in.(ssa.CallInstruction); !isCall || ci.Common().StaticCallee() != f {
								hit = true
							}
						}
						if mc, ok := (*op).(*ssa.MakeClosure); ok {
							if f, ok := mc.Fn.(*ssa.Function); ok && strings.Contains(f.Name(), "$bound") && f.Object() != nil {
								_ = f
							}
						}
					}
					if hit && !allowed[short] && !allowed[caller] {
						bad = append(bad, fmt.Sprintf("%s (%s)", caller, e.P.Fset.Position(in.Pos())))
					}
				}
			}
		}
		clause := fmt.Sprintf("%s is called (or taken as a value) only in: %s", co.Callee, strings.Join(co.Callers, ", "))
		switch {
		case !found && !(strings.HasPrefix(co.Callee, "(") && !strings.HasPrefix(co.Callee, "(*")):
			out = append(out, StaticObl{name, clause, "failed", "no function " + co.Callee + " in " + co.PkgPath})
		case len(bad) > 0:
			out = append(out, StaticObl{name, clause, "failed", "other call sites: " + strings.Join(bad, "; ")})
		default:
			out = append(out, StaticObl{name, clause, "unsat", ""})
		}
	}
	return out
}

func ifaceKey(c *ssa.CallCommon) string {
	t := c.Value.Type()
	type named interface {
		Obj() interface {
			Name() string
		}
	}
	s := t.String() // pkgpath.Name
	i := strings.LastIndex(s, ".")
	if i < 0 {
		return ""
	}
	return s[:i] + ".(" + s[i+1:] + ")." + c.Method.Name()
}
