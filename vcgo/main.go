package main

import (
	"encoding/json"
	"flag"
	"fmt"
	"os"
	"path/filepath"
	"sort"
	"strconv"
	"strings"
	"time"
)

type KnownFinding struct {
	Status     string `json:"status"`
	Property   string `json:"property"`
	Commit     string `json:"commit,omitempty"`
	Obligation string `json:"obligation"`
	Case       string `json:"case,omitempty"`
	ID         string `json:"id,omitempty"`
	What       string `json:"what"`
}

type Ledger struct {
	Props map[string][]string `json:"properties"`
	// parameter and local-variable names of every function under contract, as they were when
	// the ledger was written (see fnvals.go: rename resilience)
	Names map[string]FnNames `json:"names,omitempty"`
}

type OblReport struct {
	Name    string  `json:"name"`
	Clause  string  `json:"clause,omitempty"`
	Verdict string  `json:"verdict"`
	Solver  string  `json:"solver"`
	Secs    float64 `json:"secs"`
	File    string  `json:"smt_file,omitempty"`
}

func main() {
	if len(os.Args) < 2 {
		fmt.Fprintln(os.Stderr, "usage: vcgo check|ledger|dump ...")
		os.Exit(2)
	}
	switch os.Args[1] {
	case "check":
		os.Exit(cmdCheck(os.Args[2:]))
	case "dump":
		os.Exit(cmdDump(os.Args[2:]))
	case "warm":
		// populate the go build cache (export data of dependencies) and check the contract files parse
		t0 := time.Now()
		if _, _, _, err := loadAll("/repo"); err != nil {
			fmt.Fprintln(os.Stderr, "vcgo warm:", err)
			os.Exit(2)
		}
		fmt.Printf("vcgo warm: loaded /repo in %.1fs\n", time.Since(t0).Seconds())
		os.Exit(0)
	default:
		fmt.Fprintln(os.Stderr, "unknown command", os.Args[1])
		os.Exit(2)
	}
}

func loadAll(repo string) (*Program, *Contracts, *Engine, error) {
	p, err := loadProgram(repo, []string{"./..."})
	if err != nil {
		return nil, nil, nil, err
	}
	cs, err := loadContracts(p)
	if err != nil {
		return nil, nil, nil, err
	}
	e := newEngine(p, cs)
	e.applyDecls()
	return p, cs, e, nil
}

func cmdDump(args []string) int {
	fs := flag.NewFlagSet("dump", flag.ExitOnError)
	repo := fs.String("repo", "/repo", "")
	key := fs.String("fn", "", "contract key substring")
	fs.Parse(args)
	_, cs, e, err := loadAll(*repo)
	if err != nil {
		fmt.Fprintln(os.Stderr, err)
		return 2
	}
	for _, k := range cs.sortedKeys() {
		if !strings.Contains(k, *key) {
			continue
		}
		r := e.verifyContract(cs.ByKey[k])
		fmt.Printf(";; %s unsupported=%q obligations=%d\n", k, r.Unsupported, len(r.Script.Obls))
		for _, o := range r.Script.Obls {
			fmt.Printf(";; obligation %s canary=%v\n", o.Name, o.Canary)
		}
		if len(r.Script.Obls) > 0 {
			fmt.Println(r.Script.Obls[len(r.Script.Obls)-1].Render("ALL"))
		}
	}
	return 0
}

func cmdCheck(args []string) int {
	fs := flag.NewFlagSet("check", flag.ExitOnError)
	repo := fs.String("repo", "/repo", "")
	verif := fs.String("verif", "/verif", "")
	prop := fs.String("prop", "", "property id")
	tier := fs.String("tier", "quick", "")
	writeLedger := fs.Bool("write-ledger", false, "record the proved obligations of this property in the ledger")
	only := fs.String("only", "", "restrict to contracts whose key contains this")
	scratch := fs.String("scratch", "", "write queries, replay files and evidence under this directory instead of -verif (self-tests on a copy of the repository)")
	cache := fs.String("cache", "", "directory of already decided queries (self-test only; the registered checks never pass it)")
	fs.Parse(args)
	queryCache = *cache
	work := *verif
	if *scratch != "" {
		work = *scratch
	}
	t0 := time.Now()
	seed, _ := strconv.ParseInt(os.Getenv("VERIF_SEED"), 10, 64)
	if t := os.Getenv("VERIF_TIER"); t != "" && *tier == "" {
		*tier = t
	}
	_, cs, e, err := loadAll(*repo)
	if err != nil {
		fmt.Fprintln(os.Stderr, "vcgo: load failed:", err)
		// A tree that does not load cannot be verified; this is a broken run, not a verdict.
		return 2
	}
	loadSecs := time.Since(t0).Seconds()
	if b, err := os.ReadFile(filepath.Join(*verif, "obligations.lock.json")); err == nil {
		var l0 Ledger
		if json.Unmarshal(b, &l0) == nil {
			e.recorded = l0.Names
		}
	}
	var results []*FnResult
	for _, k := range cs.sortedKeys() {
		ct := cs.ByKey[k]
		if ct.Iface || ct.Trusted != "" {
			continue
		}
		serves := false
		for _, s := range ct.Serves {
			if s == *prop {
				serves = true
			}
		}
		if *prop == "C20" && !ct.Lemma {
			// lock discipline and absence of panics are checked on every function under contract
			serves = true
		}
		if !serves || (*only != "" && !strings.Contains(k, *only)) {
			continue
		}
		results = append(results, e.verifyContract(ct))
	}
	extra := e.staticObligations(*prop)
	genSecs := time.Since(t0).Seconds() - loadSecs

	outDir := filepath.Join(work, "out", *prop)
	_ = os.RemoveAll(outDir)
	_ = os.MkdirAll(outDir, 0o755)
	// known findings and ledger
	var kfs struct {
		Findings []KnownFinding `json:"findings"`
	}
	if b, err := os.ReadFile(filepath.Join(*verif, "known_findings.json")); err == nil {
		_ = json.Unmarshal(b, &kfs)
	}
	knownProp := map[string]string{} // obligation name -> property of the known finding
	for _, kf := range kfs.Findings {
		if kf.Status == "known" {
			knownProp[kf.Obligation] = kf.Property
		}
	}
	var obls, canaries, knownObls []*Obligation
	for _, r := range results {
		for _, o := range r.Script.Obls {
			if *prop == "C20" && !o.Canary && !isDisciplineObligation(o) {
				// C20 is decided by the lock-discipline and no-panic obligations of the functions
				// serving it; their functional obligations belong to the other properties
				continue
			}
			switch {
			case o.Canary:
				canaries = append(canaries, o)
			case knownProp[o.Name] == *prop:
				// the obligation of a recorded finding of this property: expected to fail
				knownObls = append(knownObls, o)
			case knownProp[o.Name] != "":
				// a recorded finding of another property: reported there, not here
			default:
				obls = append(obls, o)
			}
		}
	}
	timeout := 15 * time.Second
	all := false
	if *tier == "thorough" {
		// every solver runs to its own answer on every obligation (disagreements are reported);
		// 60 s each keeps the largest property (about 2000 obligations) within about an hour
		timeout = 60 * time.Second
		all = true
	}
	ts := time.Now()
	solveAll(obls, outDir, timeout, all, 8, seed)
	solveAll(canaries, outDir, 2*time.Second, false, 8, seed)
	for _, o := range knownObls {
		o.NoRetry = true
	}
	solveAll(knownObls, outDir, 5*time.Second, false, 8, seed)
	solveSecs := time.Since(ts).Seconds()
	var knownLines []string
	for _, o := range knownObls {
		for _, kf := range kfs.Findings {
			if kf.Status == "known" && kf.Obligation == o.Name {
				if o.Result.Verdict != "unsat" {
					knownLines = append(knownLines, fmt.Sprintf("KNOWN-FINDING: property=%s %s [%s: obligation %s undischarged (%s)]", *prop, kf.What, kf.ID, o.Name, o.Result.Verdict))
				} else {
					knownLines = append(knownLines, fmt.Sprintf("NOTE recorded finding %s no longer reproduces: obligation %s is discharged", kf.ID, o.Name))
				}
			}
		}
	}
	ledger := Ledger{Props: map[string][]string{}}
	if b, err := os.ReadFile(filepath.Join(*verif, "obligations.lock.json")); err == nil {
		_ = json.Unmarshal(b, &ledger)
	}

	exit := 0
	violations := 0
	broken := false
	var reports []OblReport
	var solverTime float64
	discharged := 0
	generated := map[string]bool{}
	lines := append([]string{}, knownLines...)
	for _, o := range knownObls {
		generated[o.Name] = true
	}
	replayDir := filepath.Join(work, "replays", *prop)
	_ = os.RemoveAll(replayDir)
	violate := func(name, clause string, detail map[string]any) {
		_ = os.MkdirAll(replayDir, 0o755)
		path := filepath.Join(replayDir, sanitize(name)+".json")
		detail["obligation"] = name
		detail["clause"] = clause
		detail["property"] = *prop
		detail["failing_input"] = nil
		b, _ := json.MarshalIndent(detail, "", " ")
		_ = os.WriteFile(path, b, 0o644)
		lines = append(lines, fmt.Sprintf("FAILED obligation %s: %s", name, clause))
		lines = append(lines, fmt.Sprintf("VIOLATION property=%s replay=%s no-failing-input-found", *prop, path))
		violations++
		exit = 1
	}
	for _, r := range results {
		if r.Unsupported != "" {
			lines = append(lines, fmt.Sprintf("UNVERIFIABLE %s: %s", r.FullName, r.Unsupported))
			// every ledger obligation of this function is lost
			lost := 0
			for _, n := range ledger.Props[*prop] {
				if strings.HasPrefix(n, r.FullName+"#") {
					lost++
				}
			}
			violate(r.FullName+"#verifiable", "the function is within the verifier's subset and its contract binds to it",
				map[string]any{"reason": r.Unsupported, "ledger_obligations_lost": lost})
		}
	}
	for _, o := range obls {
		generated[o.Name] = true
		rep := OblReport{Name: o.Name, Clause: o.Clause, Verdict: o.Result.Verdict, Solver: o.Result.Solver, Secs: o.Result.Secs, File: o.Result.File}
		reports = append(reports, rep)
		solverTime += o.Result.Secs
		if o.Result.Verdict == "unsat" {
			discharged++
			continue
		}
		if o.Result.Verdict == "error" {
			lines = append(lines, fmt.Sprintf("SOLVER-ERROR %s: %s", o.Name, firstLines(o.Result.Output, 3)))
			broken = true
			continue
		}
		// known finding?
		known := false
		for _, kf := range kfs.Findings {
			if kf.Status == "known" && kf.Property == *prop && kf.Obligation == o.Name {
				lines = append(lines, fmt.Sprintf("KNOWN-FINDING: property=%s %s (obligation %s)", *prop, kf.What, o.Name))
				known = true
			}
		}
		if known {
			continue
		}
		violate(o.Name, o.Clause, map[string]any{"verdict": o.Result.Verdict, "solver": o.Result.Solver, "solver_output": o.Result.Output, "smt_file": o.Result.File, "all_solvers": o.Result.All})
	}
	for _, x := range extra {
		generated[x.Name] = true
		reports = append(reports, OblReport{Name: x.Name, Clause: x.Clause, Verdict: x.Verdict, Solver: "static"})
		if x.Verdict == "unsat" {
			discharged++
			continue
		}
		violate(x.Name, x.Clause, map[string]any{"verdict": "failed", "solver": "static analysis", "solver_output": x.Detail})
	}
	vacuous := 0
	for _, o := range canaries {
		if o.Result.Verdict == "unsat" {
			lines = append(lines, fmt.Sprintf("VACUOUS %s: assumptions are contradictory", o.Name))
			vacuous++
			broken = true
		}
	}
	// ledger: every recorded obligation must have been generated again
	for _, n := range ledger.Props[*prop] {
		if !generated[n] {
			fn := n
			if i := strings.Index(n, "#"); i >= 0 {
				fn = n[:i]
			}
			skip := false
			for _, r := range results {
				if r.FullName == fn && r.Unsupported != "" {
					skip = true // already reported
				}
			}
			if j := strings.Index(n, "#"); j >= 0 && strings.Contains(n[j:], "@") {
				// an obligation tied to a code site (a call, a dereference, a back edge): it goes
				// away when the code at that site does, and its name moves with unrelated edits;
				// only contract-level obligations (ensures, frames, ownership) must reappear
				skip = true
			}
			if !skip && *only == "" && !*writeLedger {
				violate(n, "obligation recorded in the ledger was not generated from the current tree", map[string]any{"verdict": "missing"})
			}
		}
	}
	total := len(obls) + len(extra)
	if total == 0 {
		lines = append(lines, "NO-OBLIGATIONS: nothing was generated for "+*prop)
		broken = true
	}
	for _, kf := range kfs.Findings {
		if kf.Status == "known" && kf.Property == *prop && !generated[kf.Obligation] {
			lines = append(lines, fmt.Sprintf("NOTE known finding %s: obligation %s was not generated", kf.ID, kf.Obligation))
		}
	}
	sort.Slice(reports, func(i, j int) bool { return reports[i].Name < reports[j].Name })

	if *writeLedger && exit == 0 && !broken {
		var names []string
		for _, r := range reports {
			if r.Verdict == "unsat" {
				names = append(names, r.Name)
			}
		}
		ledger.Props[*prop] = names
		if ledger.Names == nil {
			ledger.Names = map[string]FnNames{}
		}
		for _, r := range results {
			if r.Unsupported == "" && len(r.Names.Params)+len(r.Names.Locals) > 0 {
				ledger.Names[r.FullName] = r.Names
			}
		}
		b, _ := json.MarshalIndent(ledger, "", " ")
		_ = os.WriteFile(filepath.Join(*verif, "obligations.lock.json"), b, 0o644)
	}

	// evidence
	ev := buildEvidence(*prop, *tier, seed, results, reports, total, discharged, len(canaries), vacuous, violations, loadSecs, genSecs, solveSecs, solverTime, time.Since(t0).Seconds(), e, lines)
	_ = os.MkdirAll(filepath.Join(work, "evidence"), 0o755)
	b, _ := json.MarshalIndent(ev, "", " ")
	_ = os.WriteFile(filepath.Join(work, "evidence", *prop+".json"), b, 0o644)

	for _, l := range lines {
		fmt.Println(l)
	}
	fmt.Printf("%s: %d obligations, %d discharged, %d canaries (%d vacuous), %d violations; load %.1fs gen %.1fs solve %.1fs\n", *prop, total, discharged, len(canaries), vacuous, violations, loadSecs, genSecs, solveSecs)
	if exit == 1 {
		return 1
	}
	if broken {
		return 2
	}
	return 0
}

// isDisciplineObligation: lock order, guarded-by, held/unlocked preconditions, no-panic.
func isDisciplineObligation(o *Obligation) bool {
	switch o.Kind {
	case "guarded-by", "lock-order", "no-panic", "immutable":
		return true
	}
	for _, w := range []string{"guard", "locked", "unlocked", "owner"} {
		if strings.Contains(o.Label, w) {
			return true
		}
	}
	return false
}

func firstLines(s string, n int) string {
	ls := strings.Split(strings.TrimSpace(s), "\n")
	if len(ls) > n {
		ls = ls[:n]
	}
	return strings.Join(ls, " | ")
}

func buildEvidence(prop, tier string, seed int64, results []*FnResult, reports []OblReport, total, discharged, ncan, vacuous, violations int, loadS, genS, solveS, solverTime, wall float64, e *Engine, lines []string) map[string]any {
	var fns []string
	assumed := map[string]bool{}
	skipped := map[string]bool{}
	havocked := map[string]bool{}
	inlined := map[string]bool{}
	for _, r := range results {
		fns = append(fns, r.FullName)
		for k := range r.Notes.Assumed {
			assumed[k] = true
		}
		for k := range r.Notes.Skipped {
			skipped[k] = true
		}
		for k := range r.Notes.Havocked {
			havocked[k] = true
		}
		for k := range r.Notes.Inlined {
			inlined[k] = true
		}
	}
	keys := func(m map[string]bool) []string {
		var ks []string
		for k := range m {
			ks = append(ks, k)
		}
		sort.Strings(ks)
		return ks
	}
	bySolver := map[string]int{}
	for _, r := range reports {
		if r.Verdict == "unsat" {
			bySolver[r.Solver]++
		}
	}
	var samples []any
	for i, r := range reports {
		if i%(len(reports)/4+1) == 0 {
			samples = append(samples, map[string]any{"obligation": r.Name, "clause": r.Clause, "verdict": r.Verdict, "solver": r.Solver, "secs": r.Secs, "smt_file": r.File})
		}
	}
	trusted := []string{
		"golang.org/x/tools go/ssa builder (lowering of range, switch, short-circuit operators, phi insertion) preserves semantics",
		"SMT solvers z3 5.1.0, cvc5 1.0.3, z3 4.8.12 (first decisive answer; thorough tier cross-checks all three)",
		"Go integers are mathematical integers (no wrap-around) outside 'mode bv' functions",
		"method receivers are non-nil",
		"Go runtime memory safety; map iteration yields each present key at most once",
		"sequential composition of monitor steps: a function's requires/ensures on state guarded by a mutex are interpreted at its Lock/Unlock; callers own the projection they rely on (callers-only obligations)",
	}
	var assumptions []string
	for _, k := range keys(assumed) {
		assumptions = append(assumptions, k)
	}
	for _, k := range keys(skipped) {
		assumptions = append(assumptions, "skipped (no-op list, assumed not to touch verified state nor panic): "+k)
	}
	for _, k := range keys(havocked) {
		assumptions = append(assumptions, "external/unspecified callee, results havocked: "+k)
	}
	for _, ct := range e.CS.sortedKeys() {
		c := e.CS.ByKey[ct]
		if c.Trusted != "" {
			for _, s := range c.Serves {
				if s == prop {
					assumptions = append(assumptions, "trusted contract (assumed, body not verified): "+c.Key+" - "+c.Trusted)
				}
			}
		}
	}
	cov := map[string]any{
		"obligations":        total,
		"discharged":         discharged,
		"checker_cmd":        fmt.Sprintf("/verif/check %s %s", prop, tier),
		"trusted_base":       trusted,
		"functions_under_contract": fns,
		"inlined_callees":    keys(inlined),
		"canaries":           ncan,
		"vacuous_canaries":   vacuous,
		"discharged_by":      bySolver,
		"solver_cpu_s":       solverTime,
		"load_s":             loadS,
		"vcgen_s":            genS,
		"solve_wall_s":       solveS,
		"per_obligation":     reports,
		"samples":            samples,
		"messages":           lines,
	}
	return map[string]any{
		"property_id": prop,
		"tier":        tier,
		"seed":        seed,
		"level":       "proof",
		"coverage":    cov,
		"assumptions": assumptions,
		"wall_s":      wall,
		"violations":  violations,
	}
}
