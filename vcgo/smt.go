package main

import (
	"fmt"
	"sort"
	"strings"
)

// Term is an SMT-LIB term with its sort (both as text).
type Term struct {
	S    string
	Sort string
}

func (t Term) String() string { return t.S }
func (t Term) IsZero() bool   { return t.S == "" }

const (
	SInt  = "Int"
	SBool = "Bool"
	SStr  = "Str"
	SIfc  = "Ifc"
	SF64  = "(_ FloatingPoint 11 53)"
	SBV64 = "(_ BitVec 64)"
	STime = "Int" // time.Time as an integer instant (0 = zero time)
)

var (
	TTrue  = Term{"true", SBool}
	TFalse = Term{"false", SBool}
)

func IntLit(n int64) Term {
	if n < 0 {
		return Term{fmt.Sprintf("(- %d)", -n), SInt}
	}
	return Term{fmt.Sprintf("%d", n), SInt}
}

func IntLitStr(s string) Term {
	if strings.HasPrefix(s, "-") {
		return Term{"(- " + s[1:] + ")", SInt}
	}
	return Term{s, SInt}
}

func app(sort, op string, args ...Term) Term {
	var b strings.Builder
	b.WriteString("(")
	b.WriteString(op)
	for _, a := range args {
		b.WriteString(" ")
		b.WriteString(a.S)
	}
	b.WriteString(")")
	return Term{b.String(), sort}
}

func And(ts ...Term) Term {
	var xs []Term
	for _, t := range ts {
		if t.S == "true" {
			continue
		}
		if t.S == "false" {
			return TFalse
		}
		xs = append(xs, t)
	}
	switch len(xs) {
	case 0:
		return TTrue
	case 1:
		return xs[0]
	}
	return app(SBool, "and", xs...)
}

func Or(ts ...Term) Term {
	var xs []Term
	for _, t := range ts {
		if t.S == "false" {
			continue
		}
		if t.S == "true" {
			return TTrue
		}
		xs = append(xs, t)
	}
	switch len(xs) {
	case 0:
		return TFalse
	case 1:
		return xs[0]
	}
	return app(SBool, "or", xs...)
}

func Not(t Term) Term {
	switch t.S {
	case "true":
		return TFalse
	case "false":
		return TTrue
	}
	if strings.HasPrefix(t.S, "(not ") {
		return Term{t.S[5 : len(t.S)-1], SBool}
	}
	return app(SBool, "not", t)
}

func Implies(a, b Term) Term {
	if a.S == "true" {
		return b
	}
	if a.S == "false" || b.S == "true" {
		return TTrue
	}
	return app(SBool, "=>", a, b)
}

func Eq(a, b Term) Term {
	if a.S == b.S {
		return TTrue
	}
	if a.Sort == SF64 {
		// structural equality on floats is (=); Go's == is fp.eq
		return app(SBool, "=", a, b)
	}
	return app(SBool, "=", a, b)
}

func Ite(c, a, b Term) Term {
	if c.S == "true" {
		return a
	}
	if c.S == "false" {
		return b
	}
	if a.S == b.S {
		return a
	}
	return app(a.Sort, "ite", c, a, b)
}

func Select(arr, idx Term) Term {
	return app(arrayRange(arr.Sort), "select", arr, idx)
}

func Store(arr, idx, v Term) Term {
	return app(arr.Sort, "store", arr, idx, v)
}

func ArraySort(dom, rng string) string { return "(Array " + dom + " " + rng + ")" }

// arrayRange returns the range sort of an array sort "(Array D R)".
func arrayRange(s string) string {
	parts := splitSexp(s)
	if len(parts) == 3 && parts[0] == "Array" {
		return parts[2]
	}
	panic("not an array sort: " + s)
}

func arrayDomain(s string) string {
	parts := splitSexp(s)
	if len(parts) == 3 && parts[0] == "Array" {
		return parts[1]
	}
	panic("not an array sort: " + s)
}

// splitSexp splits "(a b (c d))" into top-level elements.
func splitSexp(s string) []string {
	s = strings.TrimSpace(s)
	if !strings.HasPrefix(s, "(") {
		return []string{s}
	}
	s = s[1 : len(s)-1]
	var out []string
	depth := 0
	start := -1
	for i, c := range s {
		switch {
		case c == '(':
			if depth == 0 && start < 0 {
				start = i
			}
			depth++
		case c == ')':
			depth--
			if depth == 0 {
				out = append(out, s[start:i+1])
				start = -1
			}
		case c == ' ' || c == '\n' || c == '\t':
			if depth == 0 && start >= 0 {
				out = append(out, s[start:i])
				start = -1
			}
		default:
			if start < 0 {
				start = i
			}
		}
	}
	if start >= 0 {
		out = append(out, s[start:])
	}
	return out
}

// ---------------------------------------------------------------------------
// Script: an ordered SMT script under construction for one function. Lines
// are declarations, definitions and assumptions in program order; an
// obligation refers to the prefix of lines emitted before it.

type LineKind int

const (
	LDecl LineKind = iota
	LAssume
)

type Line struct {
	Kind LineKind
	Text string
	Note string
}

type Obligation struct {
	Name    string // full name: <pkg>.<func>#<kind>[<label>]@<site>
	Func    string
	Kind    string
	Label   string
	Site    string
	Prefix  int  // number of script lines visible
	Goal    Term // must be valid under the prefix
	Canary  bool // must FAIL (reachability witness)
	NoRetry bool
	Serves  []string
	Clause  string // human-readable clause text
	Known   string // known-finding id if this is the K-case of a split
	script  *Script
	Result  *SolveResult
	PosInfo string
}

type Script struct {
	G      *Global
	Lines  []Line
	Obls   []*Obligation
	nfresh int
	fn     string
	Quiet  bool // symbolic evaluation under binders: no definitions, assumptions or obligations
	LemmaSeq int // >0 when this script proves a lemma
	Passive  bool // definitions as constants with equations instead of macros
	// Until[i] = n: assumption line i is left out of obligations created after line n (a fact only
	// needed up to the next loop head; leaving an assumption out is always sound)
	Until map[int]int
}

// Global holds sorts, datatypes, uninterpreted functions and axioms shared by
// all scripts of a run; only what a script mentions is emitted (by name).
type Global struct {
	sorts     map[string]bool
	datatypes []string          // declare-datatypes commands in order
	dtNames   map[string]bool
	funcs     map[string]string // name -> declaration command
	funcOrder []string
	axioms    []Axiom
	strLits   map[string]string // literal -> const name
	strOrder  []string
}

type Axiom struct {
	Name  string
	Text  string   // (assert ...)
	Needs []string // emitted only if all of these symbols occur in the script
	Seq   int      // >0: exported lemma with this sequence number (usable only by later lemmas)
}

func newGlobal() *Global {
	g := &Global{sorts: map[string]bool{}, dtNames: map[string]bool{}, funcs: map[string]string{}, strLits: map[string]string{}}
	return g
}

func (g *Global) DeclareFun(name string, args []string, ret string) {
	if _, ok := g.funcs[name]; ok {
		return
	}
	g.funcs[name] = fmt.Sprintf("(declare-fun %s (%s) %s)", name, strings.Join(args, " "), ret)
	g.funcOrder = append(g.funcOrder, name)
	if strings.HasPrefix(name, "card.") && len(args) == 1 {
		// cardinality of a map domain: non-negative, positive when a key is present
		g.AddAxiom(name+".nonneg", fmt.Sprintf("(assert (forall ((d!c %s)) (! (and (>= (%s d!c) 0) (<= (%s d!c) 4294967296)) :pattern ((%s d!c)))))", args[0], name, name, name), name)
		g.AddAxiom(name+".member", fmt.Sprintf("(assert (forall ((d!c %s) (k!c %s)) (! (=> (select d!c k!c) (> (%s d!c) 0)) :pattern ((select d!c k!c) (%s d!c)))))", args[0], arrayDomain(args[0]), name, name), name)
	}
}

func (g *Global) AddAxiom(name, text string, needs ...string) {
	for _, a := range g.axioms {
		if a.Name == name {
			return
		}
	}
	g.axioms = append(g.axioms, Axiom{Name: name, Text: text, Needs: needs})
}

func (g *Global) StrLit(s string) Term {
	if n, ok := g.strLits[s]; ok {
		return Term{n, SStr}
	}
	n := fmt.Sprintf("str!%d", len(g.strOrder))
	if s == "" {
		n = "str!empty"
	}
	g.strLits[s] = n
	g.strOrder = append(g.strOrder, s)
	return Term{n, SStr}
}

func newScript(g *Global, fn string) *Script {
	return &Script{G: g, fn: fn}
}

func (s *Script) Fresh(hint, sort string) Term {
	if s.Quiet {
		panic(unsupported{"fresh symbol needed while evaluating under a binder (" + hint + ")"})
	}
	s.nfresh++
	name := fmt.Sprintf("%s!%d", sanitize(hint), s.nfresh)
	s.Lines = append(s.Lines, Line{LDecl, fmt.Sprintf("(declare-const %s %s)", name, sort), ""})
	return Term{name, sort}
}

// Define introduces a named abbreviation for a term (keeps terms small).
func (s *Script) Define(hint string, t Term) Term {
	if s.Quiet {
		return t
	}
	if len(t.S) < 24 && !strings.Contains(t.S, "(") {
		return t
	}
	s.nfresh++
	name := fmt.Sprintf("%s!%d", sanitize(hint), s.nfresh)
	if !s.Passive || (t.Sort == SBool && (strings.Contains(t.S, "(forall ") || strings.Contains(t.S, "(exists "))) {
		// quantified formulas stay macros (a named constant would put the quantifier in both polarities)
		s.Lines = append(s.Lines, Line{LDecl, fmt.Sprintf("(define-fun %s () %s %s)", name, t.Sort, t.S), ""})
		return Term{name, t.Sort}
	}
	// a constant with a defining equation (passive form): quantifier patterns then mention
	// only constants, never the ite/store structure of the definition
	s.Lines = append(s.Lines, Line{LDecl, fmt.Sprintf("(declare-const %s %s)", name, t.Sort), ""})
	s.Lines = append(s.Lines, Line{LAssume, fmt.Sprintf("(assert (= %s %s))", name, t.S), ""})
	return Term{name, t.Sort}
}

// Name introduces a constant with a defining equation (never a macro), for
// terms that occur in quantifier patterns: heap states and merged values.
func (s *Script) Name(hint string, t Term) Term {
	if s.Quiet {
		return t
	}
	if !strings.Contains(t.S, "(") {
		return t
	}
	s.nfresh++
	name := fmt.Sprintf("%s!%d", sanitize(hint), s.nfresh)
	s.Lines = append(s.Lines, Line{LDecl, fmt.Sprintf("(declare-const %s %s)", name, t.Sort), ""})
	s.Lines = append(s.Lines, Line{LAssume, fmt.Sprintf("(assert (= %s %s))", name, t.S), ""})
	return Term{name, t.Sort}
}

func (s *Script) Assume(t Term, note string) {
	if t.S == "true" || s.Quiet {
		return
	}
	s.Lines = append(s.Lines, Line{LAssume, fmt.Sprintf("(assert %s)", t.S), note})
}

func (s *Script) Oblige(o *Obligation) {
	if s.Quiet {
		return
	}
	o.Prefix = len(s.Lines)
	o.script = s
	s.Obls = append(s.Obls, o)
}

func sanitize(s string) string {
	var b strings.Builder
	for _, c := range s {
		switch {
		case c >= 'a' && c <= 'z', c >= 'A' && c <= 'Z', c >= '0' && c <= '9', c == '_', c == '.', c == '$':
			b.WriteRune(c)
		default:
			b.WriteRune('_')
		}
	}
	if b.Len() == 0 {
		return "v"
	}
	return b.String()
}

// Render produces the SMT-LIB text of one obligation.
func (o *Obligation) Render(logic string) string {
	s := o.script
	g := s.G
	var body strings.Builder
	for i, l := range s.Lines[:o.Prefix] {
		if u, ok := s.Until[i]; ok && o.Prefix > u {
			continue
		}
		body.WriteString(l.Text)
		if l.Note != "" {
			body.WriteString(" ; ")
			body.WriteString(l.Note)
		}
		body.WriteString("\n")
	}
	goal := o.Goal
	body.WriteString(fmt.Sprintf("(assert (not %s))\n", goal.S))
	bodyText := body.String()

	var pre strings.Builder
	if logic != "" {
		pre.WriteString("(set-logic " + logic + ")\n")
	}
	pre.WriteString("(declare-sort Str 0)\n")
	pre.WriteString("(declare-datatypes ((Ifc 0)) (((ifc_nil) (ifc_mk (ifc_tag Int) (ifc_val Int)))))\n")
	for _, d := range g.datatypes {
		pre.WriteString(d)
		pre.WriteString("\n")
	}
	// string literals: all distinct, with lengths
	if len(g.strOrder) > 0 {
		var names []string
		for _, lit := range g.strOrder {
			n := g.strLits[lit]
			names = append(names, n)
			pre.WriteString(fmt.Sprintf("(declare-const %s Str) ; %q\n", n, lit))
		}
		if len(names) > 1 {
			pre.WriteString("(assert (distinct " + strings.Join(names, " ") + "))\n")
		}
	}
	// the full text in which we look for needed symbols: functions are
	// emitted if mentioned in the body or in an emitted axiom (fixpoint).
	emittedAx := map[int]bool{}
	emittedFn := map[string]bool{}
	text := bodyText
	var fnDecl, axText strings.Builder
	changed := true
	for changed {
		changed = false
		for _, name := range g.funcOrder {
			if emittedFn[name] {
				continue
			}
			if containsSym(text, name) {
				emittedFn[name] = true
				changed = true
			}
		}
		for i, a := range g.axioms {
			if emittedAx[i] {
				continue
			}
			if a.Seq > 0 && s.LemmaSeq > 0 && a.Seq >= s.LemmaSeq {
				continue // a lemma may use only lemmas declared before it
			}
			ok := true
			for _, n := range a.Needs {
				if !containsSym(text, n) {
					ok = false
					break
				}
			}
			if ok {
				emittedAx[i] = true
				text += a.Text + "\n"
				changed = true
			}
		}
	}
	for _, name := range g.funcOrder {
		if emittedFn[name] {
			fnDecl.WriteString(g.funcs[name])
			fnDecl.WriteString("\n")
		}
	}
	var idx []int
	for i := range emittedAx {
		idx = append(idx, i)
	}
	sort.Ints(idx)
	for _, i := range idx {
		axText.WriteString(g.axioms[i].Text)
		axText.WriteString(" ; axiom " + g.axioms[i].Name + "\n")
	}
	// string literals are concrete: what strings.HasPrefix/CutPrefix say of a pair of them is computed
	if emittedFn["str.hasPrefix"] {
		for _, a := range g.strOrder {
			if !containsSym(text, g.strLits[a]) {
				continue
			}
			for _, p := range g.strOrder {
				if p == "" || !containsSym(text, g.strLits[p]) {
					continue
				}
				if strings.HasPrefix(a, p) {
					axText.WriteString(fmt.Sprintf("(assert (str.hasPrefix %s %s)) ; literals\n", g.strLits[a], g.strLits[p]))
					if rest, ok := g.strLits[strings.TrimPrefix(a, p)]; ok && emittedFn["str.cutPrefix"] {
						axText.WriteString(fmt.Sprintf("(assert (= (str.cutPrefix %s %s) %s)) ; literals\n", g.strLits[a], g.strLits[p], rest))
					}
				} else {
					axText.WriteString(fmt.Sprintf("(assert (not (str.hasPrefix %s %s))) ; literals\n", g.strLits[a], g.strLits[p]))
				}
			}
		}
	}
	return pre.String() + fnDecl.String() + axText.String() + bodyText + "(check-sat)\n"
}

func containsSym(text, sym string) bool {
	i := 0
	for {
		j := strings.Index(text[i:], sym)
		if j < 0 {
			return false
		}
		j += i
		end := j + len(sym)
		okL := j == 0 || isDelim(text[j-1])
		okR := end >= len(text) || isDelim(text[end])
		if okL && okR {
			return true
		}
		i = j + 1
	}
}

func isDelim(c byte) bool {
	return c == ' ' || c == '(' || c == ')' || c == '\n' || c == '\t'
}
